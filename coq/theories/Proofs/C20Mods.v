(* C20, the clause "shift/altgr held by the user are restored afterwards": the state of the shift and altgr keys at the OS after
   the events the zippychord filter writes, against the flags the filter keeps and against what the user holds. *)
From Coq Require Import Lia.
From KV Require Import Kanata.Zippy.
Local Open Scope N_scope.

Definition dstep (k : N) (d : bool) (e : zev) : bool :=
  match e with ZP o => if o =? k then true else d | ZR o => if o =? k then false else d end.
(* is key k down at the OS after the events, when it was [d] before *)
Definition down (k : N) (d : bool) (evs : list zev) : bool := fold_left (dstep k) evs d.
Lemma down_app k d a b : down k d (a ++ b) = down k (down k d a) b.
Proof. unfold down. apply fold_left_app. Qed.

Definition is_mod (k : N) : Prop := k = 42 \/ k = 54 \/ k = 100.
Definition held (k : N) (z : zstate) : bool :=
  if k =? 42 then z_lsft z else if k =? 54 then z_rsft z else z_altgr z.
Definition nomod (o : zout) : Prop := zo_osc o <> 42 /\ zo_osc o <> 54 /\ zo_osc o <> 100.

Lemma down_other k d evs : (forall e, In e evs -> match e with ZP o | ZR o => o <> k end) -> down k d evs = d.
Proof.
  revert d. induction evs as [|e r IH]; intros d H; [reflexivity|]. unfold down. cbn [fold_left]. fold (down k (dstep k d e) r).
  rewrite IH by (intros e' He'; apply H; right; exact He').
  specialize (H e (or_introl eq_refl)). destruct e as [o|o]; cbn [dstep]; destruct (N.eqb_spec o k); congruence.
Qed.
Lemma down_bs k d n : k <> 14 -> down k d (bs_events n) = d.
Proof.
  intros Hk. apply down_other. intros e He. unfold bs_events in He. apply in_flat_map in He. destruct He as (x & _ & He).
  destruct He as [<-|[<-|[]]]; congruence.
Qed.
Lemma down_type_osc k d keys o : o <> k -> down k d (type_osc keys o) = d.
Proof.
  intros H. apply down_other. intros e He. unfold type_osc in He.
  destruct (mem_n o keys); destruct He as [<-|[<-|[]]]; exact H.
Qed.

Lemma down_cons k d e r : down k d (e :: r) = down k (dstep k d e) r.
Proof. reflexivity. Qed.
Lemma down_nil k d : down k d [] = d.
Proof. reflexivity. Qed.

Ltac litcmp :=
  try change (42 =? 42) with true; try change (54 =? 54) with true; try change (100 =? 100) with true;
  try change (42 =? 54) with false; try change (42 =? 100) with false; try change (54 =? 42) with false;
  try change (54 =? 100) with false; try change (100 =? 42) with false; try change (100 =? 54) with false;
  try change (57 =? 42) with false; try change (57 =? 54) with false; try change (57 =? 100) with false;
  try change (14 =? 42) with false; try change (14 =? 54) with false; try change (14 =? 100) with false.

(* what the typing loop keeps true: the user's shift keys are down exactly until the loop has released them, altgr is up *)
Definition loopval (k : N) (zk : zstate) (released : bool) : bool :=
  if k =? 42 then z_lsft zk && negb released else if k =? 54 then z_rsft zk && negb released else false.
Definition LoopInv (k : N) (zk : zstate) (d0 : bool) (st : bool * Z * list zev) : Prop :=
  down k d0 (snd st) = loopval k zk (fst (fst st)) /\ (z_caps zk = true -> fst (fst st) = false).

Lemma type_step_inv k zk keys d0 st o :
  is_mod k -> nomod o -> LoopInv k zk d0 st -> LoopInv k zk d0 (type_step zk keys st o).
Proof.
  intros Hk (M1 & M2 & M3) [Hdn Hcp]. destruct st as [[released td] evs]. destruct o as [kind ne osc].
  cbn [zo_osc] in M1, M2, M3. cbn [fst snd] in Hdn, Hcp.
  unfold type_step, LoopInv. cbn [zo_osc].
  destruct (z_caps zk) eqn:Ecaps.
  - rewrite (Hcp eq_refl) in *. cbn [negb andb orb].
    destruct (kind =? 0); [|destruct (kind =? 1); [|destruct (kind =? 2)]]; cbn [fst snd app];
      (split; [|intros _; reflexivity]);
      rewrite ?down_app, ?down_cons, ?down_nil, ?down_app, ?down_cons, ?down_nil;
      destruct Hk as [-> | [-> | ->]]; unfold loopval in *; litcmp; cbn [dstep]; litcmp;
      rewrite ?down_type_osc by congruence; rewrite ?down_cons, ?down_nil; cbn [dstep]; litcmp; rewrite ?Hdn; try reflexivity.
  - clear Hcp. cbn [negb andb].
    destruct released, (z_lsft zk) eqn:El, (z_rsft zk) eqn:Er;
      (destruct (kind =? 0); [|destruct (kind =? 1); [|destruct (kind =? 2)]]); cbn [negb andb orb fst snd app];
      (split; [|intros; discriminate]);
      rewrite ?down_app, ?down_cons, ?down_nil, ?down_app, ?down_cons, ?down_nil;
      destruct Hk as [-> | [-> | ->]]; unfold loopval in *; litcmp; cbn [dstep]; litcmp;
      rewrite ?down_type_osc by congruence; rewrite ?down_cons, ?down_nil, ?down_app, ?down_cons, ?down_nil; cbn [dstep]; litcmp;
      rewrite ?down_type_osc by congruence; rewrite ?down_cons, ?down_nil; cbn [dstep]; litcmp;
      rewrite ?El, ?Er in *; cbn [andb negb] in *; rewrite ?Hdn; try reflexivity.
Qed.

Lemma type_fold_inv k zk keys d0 : is_mod k -> forall outs st,
  Forall nomod outs -> LoopInv k zk d0 st -> LoopInv k zk d0 (fold_left (type_step zk keys) outs st).
Proof.
  intros Hk. induction outs as [|o r IH]; intros st Hn Hi; [exact Hi|]. cbn [fold_left].
  apply IH; [exact (Forall_inv_tail Hn)|]. apply type_step_inv; [exact Hk|exact (Forall_inv Hn)|exact Hi].
Qed.

(* the user's physical state of key k after a press / release of osc *)
Definition phys_press (k osc : N) (p : bool) : bool := if osc =? k then true else p.
Definition phys_release (k osc : N) (p : bool) : bool := if osc =? k then false else p.

(* every expansion the next press can activate is typed with keys other than shift / altgr *)
Definition outputs_nomod (c : zcfg) (z : zstate) : Prop :=
  forall d keys outp fol, (d = zc_chords c \/ z_prio z = Some d) -> zlookup d keys = ZHas outp fol -> Forall nomod outp.

Lemma ignored_not_mod osc k : is_mod k -> osc <> 42 -> osc <> 54 -> osc <> 100 -> osc <> k.
Proof. intros [-> | [-> | ->]] A B C; assumption. Qed.

Lemma held_setmods k l r a ks en pr pc td po si ue ud sh cp lc ss :
  held k (mkz ks en pr pc td po si ue ud sh cp l r a lc ss) = if k =? 42 then l else if k =? 54 then r else a.
Proof. reflexivity. Qed.

Theorem press_restores_mods c z osc k p :
  is_mod k -> outputs_nomod c z ->
  (zentries (zc_chords c) <> [] -> held k z = p) ->
  down k p (snd (z_press c z osc)) = phys_press k osc p /\
  (zentries (zc_chords c) <> [] -> held k (fst (z_press c z osc)) = phys_press k osc p).
Proof.
  intros Hk Hn Hs. unfold z_press, phys_press.
  destruct (zentries (zc_chords c)) as [|e0 es] eqn:Ees.
  { cbn [fst snd]. split; [|intros X; contradiction]. rewrite down_cons, down_nil. cbn [dstep]. reflexivity. }
  specialize (Hs ltac:(discriminate)).
  destruct (N.eqb_spec osc 42) as [->|N42].
  { cbn [fst snd]. rewrite down_cons, down_nil, held_setmods. cbn [dstep].
    destruct Hk as [-> | [-> | ->]]; litcmp; cbn iota; (split; [|intros _]); try reflexivity; rewrite <- Hs; reflexivity. }
  destruct (N.eqb_spec osc 54) as [->|N54].
  { cbn [fst snd]. rewrite down_cons, down_nil, held_setmods. cbn [dstep].
    destruct Hk as [-> | [-> | ->]]; litcmp; cbn iota; (split; [|intros _]); try reflexivity; rewrite <- Hs; reflexivity. }
  destruct (N.eqb_spec osc 100) as [->|N100].
  { cbn [fst snd]. rewrite down_cons, down_nil, held_setmods. cbn [dstep].
    destruct Hk as [-> | [-> | ->]]; litcmp; cbn iota; (split; [|intros _]); try reflexivity; rewrite <- Hs; reflexivity. }
  pose proof (ignored_not_mod osc k Hk N42 N54 N100) as Nk.
  assert (Ek : (osc =? k) = false) by (apply N.eqb_neq; exact Nk). rewrite Ek.
  assert (Hosc : forall d, down k d [ZP osc] = d) by (intros d; rewrite down_cons, down_nil; cbn [dstep]; rewrite Ek; reflexivity).
  assert (K14 : k <> 14) by (destruct Hk as [-> | [-> | ->]]; discriminate).
  assert (K57 : k <> 57) by (destruct Hk as [-> | [-> | ->]]; discriminate).
  destruct (is_zippy_ignored osc).
  { cbn [fst snd]. split; [apply Hosc|intros _; exact Hs]. }
  (* the space-erasing backspace leaves the modifiers alone *)
  match goal with |- context [if ?b then [ZP 14; ZR 14] else []] => set (erase := b) end.
  assert (Hev0 : forall d, down k d (if erase then [ZP 14; ZR 14] else []) = d).
  { intros d. destruct erase; [|reflexivity]. rewrite !down_cons, down_nil. cbn [dstep].
    destruct (N.eqb_spec 14 k); [congruence|reflexivity]. }
  destruct (negb (zen_eqb (z_en z) ZEnabled)).
  { cbn [fst snd]. rewrite down_app, Hev0, Hosc. split; [reflexivity|intros _; exact Hs]. }
  match goal with |- context [match ?a with ZHas _ _ => _ | ZSubset => _ | ZNeither => _ end] => set (act := a) end.
  assert (Hact : forall outp fol, act = ZHas outp fol -> Forall nomod outp).
  { intros outp fol. unfold act. destruct (z_prio z) as [pr|] eqn:Ep.
    - destruct (zlookup pr (sorted_insert osc (z_keys z))) as [o1 f1| |] eqn:E1; cbn iota.
      + intros X. injection X as <- <-. eapply Hn; [right; exact Ep|exact E1].
      + destruct (zlookup (zc_chords c) (sorted_insert osc (z_keys z))) as [o2 f2| |] eqn:E2; intros X; try discriminate.
        injection X as <- <-. eapply Hn; [left; reflexivity|exact E2].
      + destruct (zlookup (zc_chords c) (sorted_insert osc (z_keys z))) as [o2 f2| |] eqn:E2; intros X; try discriminate.
        injection X as <- <-. eapply Hn; [left; reflexivity|exact E2].
    - cbn iota. destruct (zlookup (zc_chords c) (sorted_insert osc (z_keys z))) as [o2 f2| |] eqn:E2; intros X; try discriminate.
      injection X as <- <-. eapply Hn; [left; reflexivity|exact E2]. }
  destruct act as [outp fol| |] eqn:Eact.
  2:{ cbn [fst snd]. rewrite down_app, Hev0, Hosc. split; [reflexivity|intros _; exact Hs]. }
  2:{ cbn [fst snd]. rewrite down_app, Hev0, Hosc. split; [reflexivity|intros _].
      unfold z_soft_reset. rewrite held_setmods. exact Hs. }
  specialize (Hact outp fol eq_refl).
  match goal with
  | |- context [fold_left (type_step ?zk0 ?keys0) ?l0 (?pre0, ?td0, ?evx)] =>
      set (pre := pre0); set (zk := zk0); set (td1 := td0); set (outs := l0); set (keys := keys0)
  end.
  match goal with |- context [fold_left (type_step zk keys) outs (pre, td1, ?evx)] => set (ev2b := evx) end.
  assert (Houts : Forall nomod outs).
  { unfold outs. match goal with |- Forall nomod (skipn ?n outp) => rewrite <- (firstn_skipn n outp) in Hact end.
    apply Forall_app in Hact. apply Hact. }
  set (nonempty := match outp with [] => false | _ :: _ => true end).
  (* the state of key k when the typing loop starts *)
  set (d0 := if k =? 100 then (if z_altgr z && nonempty then false else p) else p).
  assert (Hcaps_pre : z_caps z = true -> pre = false).
  { intros Hc. unfold pre. rewrite Hc. cbn [negb]. rewrite andb_false_r. reflexivity. }
  assert (Hinit : outp <> [] -> LoopInv k zk d0 (pre, td1, ev2b)).
  { intros Hne. assert (Hne' : nonempty = true) by (unfold nonempty; destruct outp; [contradiction|reflexivity]).
    split; [|exact Hcaps_pre]. cbn [fst snd]. unfold d0, ev2b, loopval. rewrite Hne', andb_true_r.
    unfold zk. cbn [z_lsft z_rsft].
    destruct pre; destruct Hk as [-> | [-> | ->]]; litcmp; cbn iota; unfold held in Hs; litcmp; cbn iota in Hs; subst p;
      destruct (z_lsft z), (z_rsft z), (z_altgr z); cbn [app negb andb]; rewrite ?down_cons, ?down_nil; cbn [dstep]; litcmp; reflexivity. }
  destruct outp as [|o1 orest].
  { (* an entry without output: only the key itself is typed *)
    unfold outs. rewrite skipn_nil. cbn [fold_left]. cbn [fst snd].
    assert (Hpre : pre = false).
    { unfold pre. cbn [length]. match goal with |- context [(?n <? 0)%nat] =>
        replace (n <? 0)%nat with false by (symmetry; apply Nat.ltb_ge; apply Nat.le_0_l) end. apply andb_false_r. }
    unfold ev2b. rewrite Hpre. cbn [last_osc rev andb app]. rewrite !andb_false_r. cbn [app].
    subst nonempty. cbn iota. rewrite ?app_nil_r. rewrite !down_app, Hev0, Hosc, held_setmods. split; [|intros _; exact Hs].
    destruct (z_caps z); cbn [negb]; [reflexivity|].
    unfold held in Hs. destruct Hk as [-> | [-> | ->]]; litcmp; cbn iota in Hs; subst p;
      destruct (z_lsft z), (z_rsft z); cbn [app]; rewrite ?down_cons, ?down_nil; cbn [dstep]; litcmp; reflexivity. }
  specialize (Hinit ltac:(discriminate)).
  pose proof (type_fold_inv k zk keys d0 Hk outs (pre, td1, ev2b) Houts Hinit) as Hfold.
  destruct (fold_left (type_step zk keys) outs (pre, td1, ev2b)) as [[released td2] ev3] eqn:Efold.
  destruct Hfold as [Hd3 Hc3]. cbn [fst snd] in Hd3, Hc3.
  cbn [fst snd]. rewrite held_setmods. split; [|intros _; exact Hs].
  rewrite !down_app, Hev0.
  (* backspaces *)
  subst nonempty. cbn iota. rewrite down_bs by exact K14.
  (* altgr let go before typing *)
  rewrite andb_true_r.
  assert (Hev2 : down k p (if z_altgr z then [ZR 100] else []) = d0).
  { unfold d0. rewrite andb_true_r. destruct (z_altgr z); [|destruct (k =? 100); reflexivity].
    rewrite down_cons, down_nil. cbn [dstep]. rewrite (N.eqb_sym 100 k). reflexivity. }
  rewrite Hev2, Hd3.
  (* the smart space, the shift keys pressed again, altgr pressed again *)
  match goal with |- context [if ?b then [ZP 57; ZR 57] else []] => set (sm := b) end.
  assert (Hev4 : forall d, down k d (if sm then [ZP 57; ZR 57] else []) = d).
  { intros d. destruct sm; [|reflexivity]. rewrite !down_cons, down_nil. cbn [dstep].
    destruct (N.eqb_spec 57 k); [congruence|reflexivity]. }
  rewrite Hev4. unfold loopval, zk. cbn [z_lsft z_rsft z_caps] in *.
  unfold held in Hs.
  destruct (z_caps z) eqn:Ecaps.
  - rewrite (Hc3 eq_refl). cbn [negb app]. rewrite down_nil.
    destruct Hk as [-> | [-> | ->]]; litcmp; cbn iota in *; subst p; rewrite ?andb_true_r;
      destruct (z_altgr z); rewrite ?down_cons, ?down_nil; cbn [dstep]; litcmp; reflexivity.
  - cbn [negb].
    destruct Hk as [-> | [-> | ->]]; litcmp; cbn iota in *; subst p;
      destruct released, (z_lsft z), (z_rsft z), (z_altgr z); cbn [app andb negb];
      rewrite ?down_app, ?down_cons, ?down_nil; cbn [dstep]; litcmp; reflexivity.
Qed.

Theorem release_restores_mods c z osc k p :
  is_mod k -> (zentries (zc_chords c) <> [] -> held k z = p) ->
  down k p (snd (z_release c z osc)) = phys_release k osc p /\
  (zentries (zc_chords c) <> [] -> held k (fst (z_release c z osc)) = phys_release k osc p).
Proof.
  intros Hk Hs. unfold z_release, phys_release.
  destruct (zentries (zc_chords c)) as [|e0 es] eqn:Ees.
  { cbn [fst snd]. split; [|intros X; contradiction]. rewrite down_cons, down_nil. reflexivity. }
  specialize (Hs ltac:(discriminate)). unfold held in Hs.
  assert (Hd : down k p [ZR osc] = if osc =? k then false else p) by (rewrite down_cons, down_nil; reflexivity).
  assert (Hflags : (if k =? 42 then (if osc =? 42 then false else z_lsft z)
                    else if k =? 54 then (if osc =? 54 then false else z_rsft z)
                    else (if osc =? 100 then false else z_altgr z)) = if osc =? k then false else p).
  { destruct Hk as [-> | [-> | ->]]; litcmp; cbn iota in *; subst p; reflexivity. }
  destruct (is_zippy_ignored osc).
  { cbn [fst snd]. rewrite held_setmods. split; [exact Hd|intros _; exact Hflags]. }
  cbn [z_keys z_last_chord z_prio].
  destruct (z_last_chord z); destruct (remove_key osc (z_keys z)) as [|k0 kr]; cbn [fst snd]; (split; [exact Hd|intros _]).
  - destruct (z_prio z); unfold z_clear_history; rewrite held_setmods; exact Hflags.
  - rewrite held_setmods. exact Hflags.
  - unfold z_clear_history. rewrite held_setmods. exact Hflags.
  - unfold z_soft_reset. rewrite held_setmods. exact Hflags.
Qed.

(* a tick keeps the flags, except the forced reset after 10000 ticks without a key event *)
Theorem tick_keeps_mods caps z k : z_since z < 10000 -> held k (z_tick caps z) = held k z.
Proof.
  intros Hlt. unfold z_tick. cbn [z_en z_since z_until_en z_until_dis].
  assert (H1 : (10000 <? z_since z + 1) = false) by (apply N.ltb_ge; lia).
  destruct (z_en z).
  - destruct (0 <? z_until_dis z).
    + destruct (z_until_dis z - 1 =? 0).
      * unfold z_soft_reset. cbn [z_since]. change (10000 <? 0) with false. cbn iota. rewrite held_setmods. reflexivity.
      * cbn [z_since]. rewrite H1. rewrite held_setmods. reflexivity.
    + cbn [z_since]. rewrite H1. rewrite held_setmods. reflexivity.
  - destruct (z_until_en z - 1 =? 0); cbn [z_since]; rewrite H1; rewrite held_setmods; reflexivity.
  - cbn [z_since]. rewrite H1. rewrite held_setmods. reflexivity.
Qed.

(* ... and the forced reset does forget a shift that is still held (the known finding shift-held-past-reset) *)
Theorem forced_reset_forgets_held_shift : exists z, z_lsft z = true /\ z_since z = 10000 /\ z_lsft (z_tick false z) = false.
Proof.
  exists (mkz [] ZEnabled None 0 0 None 10000 0 0 0 false true false false true false). repeat split.
Qed.

(* ---------- a whole run ---------- *)
(* no expansion of the dictionary, at any follow-up depth, is typed with a shift or altgr key *)
Fixpoint nomod_chords (d : zchords) : Prop :=
  match d with
  | ZChords es =>
      (fix go (es : list (list N * (list zout * option zchords))) : Prop :=
         match es with
         | [] => True
         | (_, (outp, fol)) :: r =>
             Forall nomod outp /\ match fol with None => True | Some f => nomod_chords f end /\ go r
         end) es
  end.
Definition nomod_opt (o : option zchords) : Prop := match o with None => True | Some d => nomod_chords d end.

Lemma nomod_entry : forall es e, nomod_chords (ZChords es) -> In e es ->
  Forall nomod (fst (snd e)) /\ nomod_opt (snd (snd e)).
Proof.
  induction es as [|[ks [outp fol]] r IH]; intros e H Hin; [destruct Hin|].
  cbn in H. destruct H as (H1 & H2 & H3). destruct Hin as [<-|Hin]; [split; assumption|]. apply IH; assumption.
Qed.
Lemma nomod_lookup d keys outp fol : nomod_chords d -> zlookup d keys = ZHas outp fol -> Forall nomod outp /\ nomod_opt fol.
Proof.
  destruct d as [es]. intros H. unfold zlookup. cbn [zentries]. destruct keys as [|k0 kr]; [destruct es; discriminate|].
  destruct (find (fun e => nlist_eqb (fst e) (k0 :: kr)) es) as [e|] eqn:Ef.
  - intros X. injection X as <- <-. apply find_some in Ef. apply (nomod_entry es e H (proj1 Ef)).
  - destruct (existsb _ es); discriminate.
Qed.

Definition Ok20 (c : zcfg) (z : zstate) : Prop := nomod_chords (zc_chords c) /\ nomod_opt (z_prio z).
Lemma ok_outputs c z : Ok20 c z -> outputs_nomod c z.
Proof.
  intros [Hc Hp] d keys outp fol [->|Hd] Hl.
  - exact (proj1 (nomod_lookup _ _ _ _ Hc Hl)).
  - rewrite Hd in Hp. exact (proj1 (nomod_lookup _ _ _ _ Hp Hl)).
Qed.

Lemma press_keeps_ok c z osc : Ok20 c z -> Ok20 c (fst (z_press c z osc)).
Proof.
  intros [Hc Hp]. split; [exact Hc|]. unfold z_press.
  destruct (zentries (zc_chords c)); [exact Hp|].
  destruct (osc =? 42); [exact Hp|]. destruct (osc =? 54); [exact Hp|]. destruct (osc =? 100); [exact Hp|].
  destruct (is_zippy_ignored osc); [exact Hp|].
  destruct (negb (zen_eqb (z_en z) ZEnabled)); [exact Hp|].
  match goal with |- context [match ?a with ZHas _ _ => _ | ZSubset => _ | ZNeither => _ end] => set (act := a) end.
  assert (Hact : forall outp fol, act = ZHas outp fol -> nomod_opt fol).
  { intros outp fol. unfold act. destruct (z_prio z) as [pr|] eqn:Ep.
    - destruct (zlookup pr (sorted_insert osc (z_keys z))) as [o1 f1| |] eqn:E1; cbn iota.
      + intros X. injection X as <- <-. exact (proj2 (nomod_lookup _ _ _ _ Hp E1)).
      + destruct (zlookup (zc_chords c) (sorted_insert osc (z_keys z))) as [o2 f2| |] eqn:E2; intros X; try discriminate.
        injection X as <- <-. exact (proj2 (nomod_lookup _ _ _ _ Hc E2)).
      + destruct (zlookup (zc_chords c) (sorted_insert osc (z_keys z))) as [o2 f2| |] eqn:E2; intros X; try discriminate.
        injection X as <- <-. exact (proj2 (nomod_lookup _ _ _ _ Hc E2)).
    - cbn iota. destruct (zlookup (zc_chords c) (sorted_insert osc (z_keys z))) as [o2 f2| |] eqn:E2; intros X; try discriminate.
      injection X as <- <-. exact (proj2 (nomod_lookup _ _ _ _ Hc E2)). }
  destruct act as [outp fol| |] eqn:Eact.
  - specialize (Hact outp fol eq_refl).
    match goal with |- context [fold_left ?f ?l ?i] => destruct (fold_left f l i) as [[rl t2] e3] end.
    cbn [fst z_prio]. exact Hact.
  - cbn [fst z_prio]. exact Hp.
  - cbn [fst]. unfold z_soft_reset. cbn [z_prio]. exact I.
Qed.
Lemma release_keeps_ok c z osc : Ok20 c z -> Ok20 c (fst (z_release c z osc)).
Proof.
  intros [Hc Hp]. split; [exact Hc|]. unfold z_release.
  destruct (zentries (zc_chords c)); [exact Hp|].
  destruct (is_zippy_ignored osc); [exact Hp|].
  cbn [z_keys z_last_chord z_prio].
  destruct (z_last_chord z); destruct (remove_key osc (z_keys z)); cbn [fst].
  - destruct (z_prio z); [exact Hp|exact I].
  - exact Hp.
  - exact I.
  - exact I.
Qed.
Lemma tick_keeps_ok c caps z : Ok20 c z -> Ok20 c (z_tick caps z).
Proof.
  intros [Hc Hp]. split; [exact Hc|]. unfold z_tick. cbn [z_en z_since z_until_en z_until_dis z_prio].
  destruct (z_en z).
  - destruct (0 <? z_until_dis z).
    + destruct (z_until_dis z - 1 =? 0).
      * unfold z_soft_reset. cbn [z_since]. change (10000 <? 0) with false. cbn iota. exact I.
      * cbn [z_since]. destruct (10000 <? z_since z + 1); [exact I|exact Hp].
    + cbn [z_since]. destruct (10000 <? z_since z + 1); [exact I|exact Hp].
  - destruct (z_until_en z - 1 =? 0); cbn [z_since]; (destruct (10000 <? z_since z + 1); [exact I|exact Hp]).
  - cbn [z_since]. destruct (10000 <? z_since z + 1); [exact I|exact Hp].
Qed.

Inductive zop := OPress (osc : N) | ORelease (osc : N) | OTick (caps : bool).
Definition zstep (c : zcfg) (z : zstate) (op : zop) : zstate * list zev :=
  match op with OPress o => z_press c z o | ORelease o => z_release c z o | OTick cp => (z_tick cp z, []) end.
Fixpoint zrun (c : zcfg) (z : zstate) (ops : list zop) : zstate * list zev :=
  match ops with
  | [] => (z, [])
  | op :: r => let s1 := zstep c z op in let s2 := zrun c (fst s1) r in (fst s2, snd s1 ++ snd s2)
  end.
(* what the user physically does to key k *)
Definition phys_step (k : N) (p : bool) (op : zop) : bool :=
  match op with OPress o => phys_press k o p | ORelease o => phys_release k o p | OTick _ => p end.
(* no tick of the run is the forced reset (more than 10000 ticks since the last key event) *)
Fixpoint no_forced_reset (c : zcfg) (z : zstate) (ops : list zop) : Prop :=
  match ops with
  | [] => True
  | op :: r => match op with OTick _ => z_since z < 10000 | _ => True end /\ no_forced_reset c (fst (zstep c z op)) r
  end.

Theorem held_modifiers_are_restored c k : is_mod k -> forall ops z p,
  Ok20 c z -> (zentries (zc_chords c) <> [] -> held k z = p) -> no_forced_reset c z ops ->
  down k p (snd (zrun c z ops)) = fold_left (phys_step k) ops p.
Proof.
  intros Hk. induction ops as [|op r IH]; intros z p Hok Hs Hq; [reflexivity|].
  cbn [zrun fold_left snd fst]. destruct Hq as [Hq1 Hq2]. rewrite down_app.
  destruct op as [o|o|cp]; cbn [zstep phys_step] in *.
  - destruct (press_restores_mods c z o k p Hk (ok_outputs c z Hok) Hs) as [E1 E2]. rewrite E1.
    apply IH; [apply press_keeps_ok; exact Hok|exact E2|exact Hq2].
  - destruct (release_restores_mods c z o k p Hk Hs) as [E1 E2]. rewrite E1.
    apply IH; [apply release_keeps_ok; exact Hok|exact E2|exact Hq2].
  - cbn [snd fst] in *. rewrite down_nil.
    apply IH; [apply tick_keeps_ok; exact Hok| |exact Hq2].
    intros Hne. rewrite tick_keeps_mods by exact Hq1. exact (Hs Hne).
Qed.

(* not vacuous, and the finding: dictionary d+g -> "Dog" (upper-case D).  Shift held, 50 ticks, d, g: shift is down afterwards;
   the same with 10001 ticks: the forced reset has forgotten the shift, the upper-case letter is typed with a press AND release
   of shift, and the shift the user still holds is up at the OS *)
Definition ex20_cfg : zcfg :=
  {| zc_wait := 150; zc_deadline := 500; zc_ss := 0; zc_punct := [];
     zc_chords := ZChords [([32; 34], ([ZO 1 false 32; ZO 0 false 24; ZO 0 false 34], None))] |}.
Definition ex20_ops (n : N) : list zop := OPress 42 :: repeat (OTick false) (N.to_nat n) ++ [OPress 32; OTick false; OPress 34].
Example held_shift_restored_example :
  Ok20 ex20_cfg z_init /\ no_forced_reset ex20_cfg z_init (ex20_ops 50) /\
  down 42 false (snd (zrun ex20_cfg z_init (ex20_ops 50))) = true.
Proof. split; [split; cbn; auto using Forall_cons, Forall_nil; repeat constructor; discriminate|]. split; vm_compute; [|reflexivity]. repeat split. Qed.
Theorem held_shift_lost_after_forced_reset :
  fold_left (phys_step 42) (ex20_ops 10001) false = true /\
  down 42 false (snd (zrun ex20_cfg z_init (ex20_ops 10001))) = false.
Proof. split; vm_compute; reflexivity. Qed.

(* ---------- typing that does not form a chord passes through unchanged ---------- *)
(* while zippychord is not enabled (after a key outside every chord, or while waiting to be re-enabled) a press is written as it is *)
Theorem disabled_passes_through c z osc :
  z_en z <> ZEnabled -> z_ss_sent z = false -> snd (z_press c z osc) = [ZP osc].
Proof.
  intros Hen Hss. unfold z_press. destruct (zentries (zc_chords c)); [reflexivity|].
  destruct (osc =? 42); [reflexivity|]. destruct (osc =? 54); [reflexivity|]. destruct (osc =? 100); [reflexivity|].
  destruct (is_zippy_ignored osc); [reflexivity|]. rewrite Hss. cbn [andb].
  destruct (z_en z); [contradiction| |]; reflexivity.
Qed.

(* a key that, together with the keys held, is part of no chord: it is written as it is, nothing is erased, and zippychord is
   switched off until the keys are let go *)
Theorem outside_key_passes_through c z osc :
  z_en z = ZEnabled -> z_ss_sent z = false -> z_prio z = None ->
  osc <> 42 -> osc <> 54 -> osc <> 100 -> is_zippy_ignored osc = false ->
  zlookup (zc_chords c) (sorted_insert osc (z_keys z)) = ZNeither ->
  snd (z_press c z osc) = [ZP osc] /\ (zentries (zc_chords c) <> [] -> z_en (fst (z_press c z osc)) = ZDisabled).
Proof.
  intros Hen Hss Hp N1 N2 N3 Hi Hl. unfold z_press. destruct (zentries (zc_chords c)) as [|e0 es]; [split; [reflexivity|intros X; contradiction]|].
  destruct (N.eqb_spec osc 42); [contradiction|]. destruct (N.eqb_spec osc 54); [contradiction|]. destruct (N.eqb_spec osc 100); [contradiction|].
  rewrite Hi, Hss, Hen, Hp. cbn [andb zen_eqb negb]. cbn iota. rewrite Hl. cbn [fst snd app]. split; [reflexivity|intros _; reflexivity].
Qed.
