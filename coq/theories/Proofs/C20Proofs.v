(* C20: what a hold of chord keys leaves on screen, for every dictionary and every press order. *)
From Coq Require Import Lia.
From KV Require Import Kanata.Zippy.
Local Open Scope N_scope.

(* ---------- the receiving application: a text buffer of key codes (no modifier is involved here) ---------- *)
Definition tapply (s : list N) (e : zev) : list N :=
  match e with
  | ZP k => if k =? 14 then removelast s else s ++ [k]
  | ZR _ => s
  end.
Definition trun (s : list N) (evs : list zev) : list N := fold_left tapply evs s.

Lemma trun_app s a b : trun s (a ++ b) = trun (trun s a) b.
Proof. unfold trun. apply fold_left_app. Qed.

Fixpoint drop_last (m : nat) (s : list N) : list N := match m with O => s | S m' => drop_last m' (removelast s) end.
Lemma flat_map_const (x : list zev) : forall m (a : nat), flat_map (fun _ : nat => x) (seq a m) = concat (repeat x m).
Proof. induction m as [|m IH]; intros a; [reflexivity|]. cbn [seq flat_map repeat concat]. rewrite IH. reflexivity. Qed.
Lemma trun_bs s n : trun s (bs_events n) = drop_last (Z.to_nat n) s.
Proof.
  unfold bs_events. rewrite flat_map_const. revert s. induction (Z.to_nat n) as [|m IH]; intros s; [reflexivity|].
  cbn [repeat concat]. rewrite trun_app. cbn [trun fold_left tapply app]. change (14 =? 14) with true. cbn iota.
  apply IH.
Qed.
Lemma removelast_app_one (s : list N) x : removelast (s ++ [x]) = s.
Proof. apply removelast_last. Qed.
Lemma drop_last_app (p : list N) : forall t, drop_last (length t) (p ++ t) = p.
Proof.
  intros t. remember (length t) as m eqn:E. revert t E. induction m as [|m IH]; intros t E.
  - destruct t; [rewrite app_nil_r; reflexivity|discriminate].
  - destruct (exists_last (l := t)) as (t' & x & ->); [intros ->; discriminate|].
    rewrite app_length in E. cbn [length] in E. cbn [drop_last]. rewrite app_assoc, removelast_app_one.
    apply IH. lia.
Qed.

(* ---------- plain outputs: erasable lower-case characters other than backspace ---------- *)
Definition plain_out (o : zout) : Prop := exists c, o = ZO 0 false c /\ c <> 14.
Definition chars (l : list zout) : list N := map zo_osc l.

Lemma plain_char_count o : plain_out o -> char_count o = 1%Z.
Proof. intros (c & -> & Hc). cbn [char_count]. destruct (N.eqb_spec c 14); [contradiction|reflexivity]. Qed.

Lemma display_len_plain_aux l : Forall plain_out l -> forall acc, fold_left (fun a o => (a + char_count o)%Z) l acc = (acc + Z.of_nat (length l))%Z.
Proof.
  induction 1 as [|o l Ho Hl IH]; intros acc; [cbn; lia|]. cbn [fold_left length]. rewrite IH, (plain_char_count o Ho). lia.
Qed.
Lemma display_len_plain l : Forall plain_out l -> display_len l = Z.of_nat (length l).
Proof. intros H. unfold display_len. rewrite (display_len_plain_aux l H). lia. Qed.

Lemma trun_type_osc s keys c : c <> 14 -> trun s (type_osc keys c) = s ++ [c].
Proof.
  intros Hc. unfold type_osc. destruct (mem_n c keys); cbn [trun fold_left tapply];
    destruct (N.eqb_spec c 14); try contradiction; reflexivity.
Qed.

(* typing plain outputs with no shift held and no caps-word: appends the characters, counts them *)
Lemma type_fold_plain zk keys outs :
  Forall plain_out outs -> z_lsft zk = false -> z_rsft zk = false -> z_caps zk = false ->
  forall r td evs,
    let res := fold_left (type_step zk keys) outs (r, td, evs) in
    snd (fst res) = (td + Z.of_nat (length outs))%Z /\
    forall s, trun s (snd res) = trun s evs ++ chars outs.
Proof.
  intros Hp Hl Hr Hc. induction Hp as [|o outs Ho Hos IH]; intros r td evs.
  - cbn. split; [lia|intros s; rewrite app_nil_r; reflexivity].
  - cbn [fold_left]. destruct Ho as (c & -> & Hne).
    assert (E : type_step zk keys (r, td, evs) (ZO 0 false c) = (true, (td + 1)%Z, evs ++ type_osc keys c)).
    { unfold type_step. rewrite Hl, Hr, Hc. cbn [zo_osc negb andb orb]. change (0 =? 0) with true. cbn iota.
      cbn [char_count]. destruct (N.eqb_spec c 14); [contradiction|].
      destruct r; cbn [negb andb]; rewrite ?app_nil_r; reflexivity. }
    rewrite E. specialize (IH true (td + 1)%Z (evs ++ type_osc keys c)). cbn zeta in IH. destruct IH as [IH1 IH2].
    split; [rewrite IH1; cbn [length]; lia|].
    intros s. rewrite IH2, trun_app, (trun_type_osc _ keys c Hne). cbn [chars map zo_osc]. rewrite <- app_assoc. reflexivity.
Qed.

(* ---------- common prefix ---------- *)
Lemma common_prefix_spec : forall past cur,
  (0 <= common_prefix past cur)%Z /\
  (Z.to_nat (common_prefix past cur) <= length past)%nat /\ (Z.to_nat (common_prefix past cur) <= length cur)%nat /\
  firstn (Z.to_nat (common_prefix past cur)) (chars past) = firstn (Z.to_nat (common_prefix past cur)) (chars cur).
Proof.
  induction past as [|p ps IH]; intros cur; cbn [common_prefix].
  - repeat split; try lia; try reflexivity.
  - destruct cur as [|c cs]; [repeat split; cbn; try lia; try reflexivity|].
    destruct ((zo_osc p =? 14) || (zo_osc c =? 14) || negb (zout_eqb p c)) eqn:E; [repeat split; cbn; try lia; try reflexivity|].
    apply orb_false_iff in E. destruct E as [_ E]. apply negb_false_iff in E.
    assert (Hpc : zo_osc p = zo_osc c).
    { destruct p as [k1 n1 c1], c as [k2 n2 c2]. cbn [zout_eqb zo_osc] in *. apply andb_prop in E. destruct E as [_ E].
      apply N.eqb_eq in E. exact E. }
    destruct (IH cs) as (H0 & H1 & H2 & H3).
    replace (Z.to_nat (1 + common_prefix ps cs)) with (S (Z.to_nat (common_prefix ps cs))) by lia.
    cbn [length chars map firstn]. repeat split; try lia. rewrite Hpc. f_equal. exact H3.
Qed.

(* ---------- the invariant of a hold ---------- *)
(* [Inv c z base S]: chording is enabled, no followup dictionary, no modifier, and the screen holds base ++ S where
   S is what this hold produced; the erase counter equals |S|; after an activation S starts with its output *)
Record Inv (z : zstate) (S : list N) : Prop := {
  inv_en : z_en z = ZEnabled;
  inv_prio : z_prio z = None;
  inv_lsft : z_lsft z = false; inv_rsft : z_rsft z = false; inv_altgr : z_altgr z = false; inv_caps : z_caps z = false;
  inv_ss : z_ss_sent z = false;
  inv_td : z_to_delete z = Z.of_nat (length S);
  inv_prior : match z_prior z with
              | None => True
              | Some po => exists T, S = chars po ++ T
              end;
  inv_hold : z_same_hold z = 0 -> z_prior z = None }.

Definition not_special (osc : N) : Prop :=
  osc <> 42 /\ osc <> 54 /\ osc <> 100 /\ is_zippy_ignored osc = false /\ osc <> 14.

Definition smart (c : zcfg) (outp : list zout) : bool :=
  negb (zc_ss c =? 0) && match last_osc outp with Some o => negb ((o =? 57) || (o =? 14)) | None => false end.
Definition expansion (c : zcfg) (outp : list zout) : list N := chars outp ++ (if smart c outp then [57] else []).

(* a key that only extends a possible chord: it is typed *)
Lemma press_subset c z S osc :
  Inv z S -> not_special osc -> zc_ss c <> 2 -> zentries (zc_chords c) <> [] ->
  zlookup (zc_chords c) (sorted_insert osc (z_keys z)) = ZSubset ->
  let r := z_press c z osc in
  Inv (fst r) (S ++ [osc]) /\ z_keys (fst r) = sorted_insert osc (z_keys z) /\
  forall base, trun (base ++ S) (snd r) = base ++ S ++ [osc].
Proof.
  intros [He Hp Hl Hr Ha Hc Hs Htd Hpr Hh] (N1 & N2 & N3 & N4 & N5) Hss Hne Hlk.
  unfold z_press. destruct (zentries (zc_chords c)) as [|e0 es] eqn:Ees; [contradiction|].
  destruct (N.eqb_spec osc 42); [contradiction|]. destruct (N.eqb_spec osc 54); [contradiction|].
  destruct (N.eqb_spec osc 100); [contradiction|]. rewrite N4. rewrite Hs. cbn [andb]. rewrite He. cbn [zen_eqb negb].
  rewrite Hp. cbn iota. rewrite Hlk. cbn [fst snd app].
  split; [|split; [reflexivity|]].
  - constructor; cbn; try assumption; try reflexivity.
    + rewrite Htd, app_length. cbn [length]. lia.
    + destruct (z_prior z) as [po|]; [|exact I]. destruct Hpr as (T & ->). exists (T ++ [osc]). rewrite app_assoc. reflexivity.
  - intros base. cbn [trun fold_left tapply]. destruct (N.eqb_spec osc 14); [contradiction|]. rewrite app_assoc. reflexivity.
Qed.

(* a key that completes a chord with a plain, non-empty output: everything this hold typed is replaced by it *)
Lemma press_has c z S osc outp fol :
  Inv z S -> not_special osc -> zc_ss c <> 2 -> zentries (zc_chords c) <> [] ->
  zlookup (zc_chords c) (sorted_insert osc (z_keys z)) = ZHas outp fol -> fol = None ->
  outp <> [] -> Forall plain_out outp ->
  let r := z_press c z osc in
  Inv (fst r) (expansion c outp) /\ z_keys (fst r) = sorted_insert osc (z_keys z) /\
  forall base, trun (base ++ S) (snd r) = base ++ expansion c outp.
Proof.
  intros [He Hp Hl Hr Ha Hc Hs Htd Hpr Hh] (N1 & N2 & N3 & N4 & N5) Hss Hne Hlk Hfol Hnonempty Hplain.
  unfold z_press. destruct (zentries (zc_chords c)) as [|e0 es] eqn:Ees; [contradiction|].
  destruct (N.eqb_spec osc 42); [contradiction|]. destruct (N.eqb_spec osc 54); [contradiction|].
  destruct (N.eqb_spec osc 100); [contradiction|]. rewrite N4. rewrite Hs. cbn [andb]. rewrite He. cbn [zen_eqb negb].
  rewrite Hp. cbn iota. rewrite Hlk. cbn iota. rewrite Ha, Hc, Hl, Hr. cbn [andb negb]. rewrite !app_nil_r.
  set (keys := sorted_insert osc (z_keys z)).
  assert (Hne' : match outp with [] => false | _ :: _ => true end = true) by (destruct outp; [contradiction|reflexivity]).
  rewrite Hne'. cbn [andb app].
  match goal with
  | |- context [fold_left (type_step ?zk0 keys) (skipn (Z.to_nat ?cp0) outp) (?pre0, ?td0, ?evx)] =>
      set (ev0 := evx); set (pre := pre0); set (zk := zk0); set (cp := cp0) in *
  end.
  (* facts about the reused prefix *)
  assert (Hcp : (0 <= cp)%Z /\ (Z.to_nat cp <= length outp)%nat /\ (Z.to_nat cp <= length S)%nat /\
                firstn (Z.to_nat cp) S = firstn (Z.to_nat cp) (chars outp)).
  { unfold cp. destruct (z_same_hold z =? 0) eqn:Eh; [repeat split; try lia; try reflexivity|].
    destruct (z_prior z) as [po|]; [|repeat split; try lia; try reflexivity].
    destruct Hpr as (T & ->). destruct (common_prefix_spec po outp) as (H0 & H1 & H2 & H3).
    repeat split; try assumption.
    - rewrite app_length. unfold chars. rewrite map_length. lia.
    - rewrite firstn_app. unfold chars at 2. rewrite map_length.
      replace (Z.to_nat (common_prefix po outp) - length po)%nat with O by lia. cbn [firstn]. rewrite app_nil_r. exact H3. }
  destruct Hcp as (Hcp0 & Hcp1 & Hcp2 & Hcp3).
  assert (Hev0 : forall s, trun s ev0 = s) by (intros s; unfold ev0; match goal with |- trun s (if ?b then _ else _) = s => destruct b; reflexivity end).
  assert (Hplain_skip : Forall plain_out (skipn (Z.to_nat cp) outp)).
  { rewrite <- (firstn_skipn (Z.to_nat cp) outp) in Hplain. apply Forall_app in Hplain. apply Hplain. }
  assert (Hplain_first : Forall plain_out (firstn (Z.to_nat cp) outp)).
  { rewrite <- (firstn_skipn (Z.to_nat cp) outp) in Hplain. apply Forall_app in Hplain. apply Hplain. }
  pose proof (type_fold_plain zk keys (skipn (Z.to_nat cp) outp) Hplain_skip eq_refl eq_refl eq_refl pre
                (display_len (firstn (Z.to_nat cp) outp)) ev0) as Hfold.
  cbn zeta in Hfold.
  destruct (fold_left (type_step zk keys) (skipn (Z.to_nat cp) outp)
              (pre, display_len (firstn (Z.to_nat cp) outp), ev0)) as [[released td2] ev3] eqn:Efold.
  cbn [fst snd] in Hfold. destruct Hfold as [Htd2 Hev3].
  cbv beta iota zeta. fold (smart c outp).
  cbn [fst snd].
  assert (Hlen : (td2 = Z.of_nat (length outp))%Z).
  { rewrite Htd2, (display_len_plain _ Hplain_first), firstn_length, skipn_length. lia. }
  split; [|split; [reflexivity|]].
  - constructor; cbn [z_en z_prio z_lsft z_rsft z_altgr z_caps z_ss_sent z_to_delete z_prior z_same_hold]; try assumption; try reflexivity.
    + destruct (zc_ss c =? 2) eqn:E2; [apply N.eqb_eq in E2; contradiction|]. apply andb_false_r.
    + unfold expansion. rewrite app_length. unfold chars. rewrite map_length.
      destruct (smart c outp); cbn [length]; lia.
    + exists (if smart c outp then [57] else []). reflexivity.
    + intros Hx. lia.
  - intros base.
    rewrite !trun_app.
    (* backspaces: everything but the reused prefix *)
    rewrite trun_bs.
    replace (Z.to_nat (z_to_delete z + 0 - cp)) with (length S - Z.to_nat cp)%nat by (rewrite Htd; lia).
    assert (Hsplit : base ++ S = (base ++ firstn (Z.to_nat cp) S) ++ skipn (Z.to_nat cp) S)
      by (rewrite <- app_assoc, firstn_skipn; reflexivity).
    rewrite Hsplit. rewrite <- (skipn_length (Z.to_nat cp) S). rewrite drop_last_app.
    rewrite Hev3, Hev0.
    rewrite Hcp3.
    assert (Hjoin : firstn (Z.to_nat cp) (chars outp) ++ chars (skipn (Z.to_nat cp) outp) = chars outp).
    { unfold chars. rewrite firstn_map, <- map_app, firstn_skipn. reflexivity. }
    rewrite <- app_assoc, Hjoin.
    unfold expansion, chars. destruct (smart c outp); cbn [trun fold_left tapply app].
    + change (57 =? 14) with false. cbn iota. rewrite app_assoc. reflexivity.
    + rewrite app_nil_r. reflexivity.
Qed.

(* ---------- a whole hold ---------- *)
(* the keys pressed, oldest first; every press either extends a possible chord or completes one with a plain output *)
Fixpoint hold_ok (c : zcfg) (keys : list N) (presses : list N) : Prop :=
  match presses with
  | [] => True
  | k :: rest =>
      not_special k /\
      (zlookup (zc_chords c) (sorted_insert k keys) = ZSubset \/
       exists outp, zlookup (zc_chords c) (sorted_insert k keys) = ZHas outp None /\ outp <> [] /\ Forall plain_out outp) /\
      hold_ok c (sorted_insert k keys) rest
  end.

Fixpoint presses_run (c : zcfg) (z : zstate) (presses : list N) : zstate * list zev :=
  match presses with
  | [] => (z, [])
  | k :: rest => let '(z1, e1) := z_press c z k in let '(z2, e2) := presses_run c z1 rest in (z2, e1 ++ e2)
  end.

(* what the screen holds after the presses: the last completed output, followed by the keys pressed after it *)
Fixpoint screen_after (c : zcfg) (keys : list N) (S : list N) (presses : list N) : list N :=
  match presses with
  | [] => S
  | k :: rest =>
      match zlookup (zc_chords c) (sorted_insert k keys) with
      | ZHas outp _ => screen_after c (sorted_insert k keys) (expansion c outp) rest
      | _ => screen_after c (sorted_insert k keys) (S ++ [k]) rest
      end
  end.

Theorem hold_text c : zc_ss c <> 2 -> zentries (zc_chords c) <> [] -> forall presses z S,
  Inv z S -> hold_ok c (z_keys z) presses ->
  forall base, trun (base ++ S) (snd (presses_run c z presses)) = base ++ screen_after c (z_keys z) S presses.
Proof.
  intros Hss Hne. induction presses as [|k rest IH]; intros z S Hinv Hok base; [reflexivity|].
  cbn [hold_ok] in Hok. destruct Hok as (Hns & Hlk & Hrest). cbn [presses_run screen_after].
  destruct Hlk as [Hsub|(outp & Hhas & Hno & Hpl)].
  - destruct (press_subset c z S k Hinv Hns Hss Hne Hsub) as (Hinv' & Hkeys & Htxt).
    destruct (z_press c z k) as [z1 e1] eqn:Ep. cbn [fst snd] in *.
    destruct (presses_run c z1 rest) as [z2 e2] eqn:Er. cbn [snd]. rewrite Hsub.
    rewrite trun_app, Htxt. rewrite <- Hkeys in Hrest.
    specialize (IH z1 (S ++ [k]) Hinv' Hrest base). rewrite Er in IH. cbn [snd] in IH. rewrite IH, Hkeys. reflexivity.
  - destruct (press_has c z S k outp None Hinv Hns Hss Hne Hhas eq_refl Hno Hpl) as (Hinv' & Hkeys & Htxt).
    destruct (z_press c z k) as [z1 e1] eqn:Ep. cbn [fst snd] in *.
    destruct (presses_run c z1 rest) as [z2 e2] eqn:Er. cbn [snd]. rewrite Hhas.
    rewrite trun_app, Htxt. rewrite <- Hkeys in Hrest.
    specialize (IH z1 (expansion c outp) Hinv' Hrest base). rewrite Er in IH. cbn [snd] in IH. rewrite IH, Hkeys. reflexivity.
Qed.

Lemma screen_after_last c outp last : forall presses ks S,
  zlookup (zc_chords c) (fold_left (fun ks k => sorted_insert k ks) (presses ++ [last]) ks) = ZHas outp None ->
  screen_after c ks S (presses ++ [last]) = expansion c outp.
Proof.
  induction presses as [|k rest IH]; intros ks S Hl.
  - cbn [app fold_left] in Hl. cbn [app screen_after]. rewrite Hl. reflexivity.
  - cbn [app fold_left] in Hl. cbn [app screen_after].
    destruct (zlookup (zc_chords c) (sorted_insert k ks)); apply IH; exact Hl.
Qed.

(* the statement of the property for one chord: any order of its keys, any shorter chords met on the way *)
Theorem chord_leaves_expansion c presses last outp :
  zc_ss c <> 2 -> zentries (zc_chords c) <> [] ->
  hold_ok c [] (presses ++ [last]) ->
  zlookup (zc_chords c) (fold_left (fun ks k => sorted_insert k ks) (presses ++ [last]) []) = ZHas outp None ->
  forall base, trun base (snd (presses_run c z_init (presses ++ [last]))) = base ++ expansion c outp.
Proof.
  intros Hss Hne Hok Hlast base.
  assert (Hinv : Inv z_init []) by (constructor; cbn; auto).
  pose proof (hold_text c Hss Hne (presses ++ [last]) z_init [] Hinv Hok base) as H.
  rewrite app_nil_r in H. rewrite H. f_equal.
  change (z_keys z_init) with (@nil N). apply screen_after_last. exact Hlast.
Qed.

(* releases and an empty dictionary write nothing but the key itself *)
Lemma release_text c z osc s : trun s (snd (z_release c z osc)) = s.
Proof.
  unfold z_release. destruct (zentries (zc_chords c)); [reflexivity|]. destruct (is_zippy_ignored osc); reflexivity.
Qed.
Lemma empty_dictionary_passes c z osc : zentries (zc_chords c) = [] ->
  snd (z_press c z osc) = [ZP osc] /\ snd (z_release c z osc) = [ZR osc].
Proof. intros H. unfold z_press, z_release. rewrite H. split; reflexivity. Qed.

(* ---------- from one hold to the next ---------- *)
Lemma press_has_last_chord c z S osc outp fol :
  Inv z S -> not_special osc -> zentries (zc_chords c) <> [] ->
  zlookup (zc_chords c) (sorted_insert osc (z_keys z)) = ZHas outp fol ->
  z_last_chord (fst (z_press c z osc)) = true.
Proof.
  intros [He Hp Hl Hr Ha Hc Hs Htd Hpr Hh] (N1 & N2 & N3 & N4 & N5) Hne Hlk.
  unfold z_press. destruct (zentries (zc_chords c)) as [|e0 es] eqn:Ees; [contradiction|].
  destruct (N.eqb_spec osc 42); [contradiction|]. destruct (N.eqb_spec osc 54); [contradiction|].
  destruct (N.eqb_spec osc 100); [contradiction|]. rewrite N4. rewrite Hs. cbn [andb]. rewrite He. cbn [zen_eqb negb].
  rewrite Hp. cbn iota. rewrite Hlk. cbn iota.
  match goal with |- context [fold_left ?f ?l ?i] => destruct (fold_left f l i) as [[r0 t0] e0'] end.
  reflexivity.
Qed.

(* releasing a key of a hold whose last press completed a chord: the text is untouched; when the last key goes up the
   bookkeeping is back to the start of a hold *)
Lemma release_inv c z S osc :
  zentries (zc_chords c) <> [] -> Inv z S -> z_last_chord z = true -> not_special osc ->
  let z' := fst (z_release c z osc) in
  z_keys z' = remove_key osc (z_keys z) /\ z_last_chord z' = true /\
  (remove_key osc (z_keys z) = [] -> Inv z' []) /\ (remove_key osc (z_keys z) <> [] -> Inv z' S).
Proof.
  intros Hne [He Hp Hl Hr Ha Hc Hs Htd Hpr Hh] Hlc (N1 & N2 & N3 & N4 & N5).
  unfold z_release. destruct (zentries (zc_chords c)) as [|e0 es] eqn:Ees; [contradiction|].
  destruct (N.eqb_spec osc 42); [contradiction|]. destruct (N.eqb_spec osc 54); [contradiction|].
  destruct (N.eqb_spec osc 100); [contradiction|]. rewrite N4. cbn [fst z_keys z_last_chord z_en z_prio].
  rewrite Hlc, Hp.
  destruct (remove_key osc (z_keys z)) as [|k ks] eqn:Er; cbn [fst z_keys z_last_chord z_clear_history].
  - split; [reflexivity|]. split; [reflexivity|]. split; [|intros X; contradiction]. intros _.
    constructor; cbn; auto.
  - split; [reflexivity|]. split; [reflexivity|]. split; [discriminate|]. intros _.
    constructor; cbn; auto.
Qed.

Fixpoint releases_run (c : zcfg) (z : zstate) (rels : list N) : zstate * list zev :=
  match rels with
  | [] => (z, [])
  | k :: rest => let '(z1, e1) := z_release c z k in let '(z2, e2) := releases_run c z1 rest in (z2, e1 ++ e2)
  end.

Lemma releases_text c : forall rels z s, trun s (snd (releases_run c z rels)) = s.
Proof.
  induction rels as [|k rest IH]; intros z s; [reflexivity|]. cbn [releases_run].
  destruct (z_release c z k) as [z1 e1] eqn:E1. destruct (releases_run c z1 rest) as [z2 e2] eqn:E2. cbn [snd].
  rewrite trun_app. pose proof (release_text c z k s) as H. rewrite E1 in H. cbn [snd] in H. rewrite H.
  specialize (IH z1 s). rewrite E2 in IH. exact IH.
Qed.

(* after the keys of a completed chord have all been released (in any order), the next hold starts clean *)
Lemma releases_restore c : zentries (zc_chords c) <> [] -> forall rels z S,
  Inv z S -> z_last_chord z = true -> Forall not_special rels ->
  fold_left (fun ks k => remove_key k ks) rels (z_keys z) = [] -> rels <> [] ->
  Inv (fst (releases_run c z rels)) [] /\ z_keys (fst (releases_run c z rels)) = [].
Proof.
  intros Hne. induction rels as [|k rest IH]; intros z S Hinv Hlc Hns Hk Hnonempty; [contradiction|].
  inversion Hns as [|? ? Hk1 Hrest]; subst. cbn [fold_left] in Hk. cbn [releases_run].
  destruct (release_inv c z S k Hne Hinv Hlc Hk1) as (Hkeys & Hlc' & Hempty & Hnon).
  destruct (z_release c z k) as [z1 e1] eqn:E1. cbn [fst] in *.
  destruct (releases_run c z1 rest) as [z2 e2] eqn:E2. cbn [fst].
  destruct rest as [|k2 rest'].
  - cbn [fold_left] in Hk. cbn [releases_run] in E2. injection E2 as <- _. split; [apply Hempty; exact Hk|rewrite Hkeys; exact Hk].
  - destruct (remove_key k (z_keys z)) as [|x xs] eqn:Er.
    + (* already empty: the remaining releases keep it clean *)
      assert (Hk' : fold_left (fun ks k0 => remove_key k0 ks) (k2 :: rest') (z_keys z1) = []) by (rewrite Hkeys; exact Hk).
      specialize (IH z1 [] (Hempty eq_refl) Hlc' Hrest Hk' ltac:(discriminate)).
      rewrite E2 in IH. exact IH.
    + assert (Hk' : fold_left (fun ks k0 => remove_key k0 ks) (k2 :: rest') (z_keys z1) = []) by (rewrite Hkeys; exact Hk).
      specialize (IH z1 S (Hnon ltac:(discriminate)) Hlc' Hrest Hk' ltac:(discriminate)).
      rewrite E2 in IH. exact IH.
Qed.

(* the state after the presses of a hold *)
Fixpoint ends_with_chord (c : zcfg) (keys : list N) (presses : list N) : Prop :=
  match presses with
  | [] => False
  | [k] => exists outp fol, zlookup (zc_chords c) (sorted_insert k keys) = ZHas outp fol
  | k :: rest => ends_with_chord c (sorted_insert k keys) rest
  end.

Lemma hold_state c : zc_ss c <> 2 -> zentries (zc_chords c) <> [] -> forall presses z S,
  Inv z S -> hold_ok c (z_keys z) presses ->
  Inv (fst (presses_run c z presses)) (screen_after c (z_keys z) S presses) /\
  z_keys (fst (presses_run c z presses)) = fold_left (fun ks k => sorted_insert k ks) presses (z_keys z) /\
  (ends_with_chord c (z_keys z) presses -> z_last_chord (fst (presses_run c z presses)) = true).
Proof.
  intros Hss Hne. induction presses as [|k rest IH]; intros z S Hinv Hok.
  - cbn [presses_run screen_after fold_left fst ends_with_chord]. split; [exact Hinv|]. split; [reflexivity|intros []].
  - cbn [hold_ok] in Hok. destruct Hok as (Hns & Hlk & Hrest). cbn [presses_run screen_after fold_left].
    assert (Hstep : exists S1, Inv (fst (z_press c z k)) S1 /\ z_keys (fst (z_press c z k)) = sorted_insert k (z_keys z) /\
              S1 = match zlookup (zc_chords c) (sorted_insert k (z_keys z)) with ZHas outp _ => expansion c outp | _ => S ++ [k] end /\
              ((exists outp fol, zlookup (zc_chords c) (sorted_insert k (z_keys z)) = ZHas outp fol) -> z_last_chord (fst (z_press c z k)) = true)).
    { destruct Hlk as [Hsub|(outp & Hhas & Hno & Hpl)].
      - destruct (press_subset c z S k Hinv Hns Hss Hne Hsub) as (Hinv' & Hkeys & _).
        exists (S ++ [k]). rewrite Hsub. split; [exact Hinv'|]. split; [exact Hkeys|]. split; [reflexivity|]. intros (o & f0 & X). discriminate.
      - destruct (press_has c z S k outp None Hinv Hns Hss Hne Hhas eq_refl Hno Hpl) as (Hinv' & Hkeys & _).
        exists (expansion c outp). rewrite Hhas. split; [exact Hinv'|]. split; [exact Hkeys|]. split; [reflexivity|]. intros _.
        eapply press_has_last_chord; eassumption. }
    destruct Hstep as (S1 & Hinv1 & Hkeys1 & HS1 & Hlc1).
    destruct (z_press c z k) as [z1 e1] eqn:Ep. cbn [fst] in *.
    rewrite <- Hkeys1 in Hrest. destruct (IH z1 S1 Hinv1 Hrest) as (I1 & I2 & I3).
    destruct (presses_run c z1 rest) as [z2 e2] eqn:Er. cbn [fst] in *.
    rewrite Hkeys1 in I1, I2, I3.
    assert (Escr : screen_after c (sorted_insert k (z_keys z)) S1 rest =
                   match zlookup (zc_chords c) (sorted_insert k (z_keys z)) with
                   | ZHas outp _ => screen_after c (sorted_insert k (z_keys z)) (expansion c outp) rest
                   | _ => screen_after c (sorted_insert k (z_keys z)) (S ++ [k]) rest
                   end) by (rewrite HS1; destruct (zlookup (zc_chords c) (sorted_insert k (z_keys z))); reflexivity).
    rewrite <- Escr. split; [exact I1|]. split; [exact I2|].
    intros Hend. destruct rest as [|k2 rest'].
    + cbn [presses_run] in Er. injection Er as <- _. apply Hlc1. exact Hend.
    + apply I3. exact Hend.
Qed.

(* a typing session: holds that each end with a completed chord, every key released before the next hold *)
Fixpoint session_run (c : zcfg) (z : zstate) (holds : list (list N * list N)) : zstate * list zev :=
  match holds with
  | [] => (z, [])
  | (ps, rs) :: rest =>
      let '(z1, e1) := presses_run c z ps in
      let '(z2, e2) := releases_run c z1 rs in
      let '(z3, e3) := session_run c z2 rest in
      (z3, e1 ++ e2 ++ e3)
  end.
Fixpoint session_text (c : zcfg) (holds : list (list N * list N)) : list N :=
  match holds with
  | [] => []
  | (ps, _) :: rest => screen_after c [] [] ps ++ session_text c rest
  end.
Definition hold_wf (c : zcfg) (h : list N * list N) : Prop :=
  hold_ok c [] (fst h) /\ ends_with_chord c [] (fst h) /\ Forall not_special (snd h) /\ snd h <> [] /\
  fold_left (fun ks k => remove_key k ks) (snd h) (fold_left (fun ks k => sorted_insert k ks) (fst h) []) = [].

Theorem session_leaves_the_expansions c : zc_ss c <> 2 -> zentries (zc_chords c) <> [] -> forall holds z,
  Inv z [] -> z_keys z = [] -> Forall (hold_wf c) holds ->
  forall base, trun base (snd (session_run c z holds)) = base ++ session_text c holds.
Proof.
  intros Hss Hne. induction holds as [|[ps rs] rest IH]; intros z Hinv Hk Hwf base.
  - cbn. rewrite app_nil_r. reflexivity.
  - inversion Hwf as [|? ? (Hok & Hend & Hns & Hrne & Hrel) Hwf']; subst. cbn [fst snd] in *. cbn [session_run session_text].
    rewrite <- Hk in Hok, Hend.
    destruct (hold_state c Hss Hne ps z [] Hinv Hok) as (I1 & I2 & I3).
    pose proof (hold_text c Hss Hne ps z [] Hinv Hok base) as Ht. rewrite app_nil_r in Ht.
    destruct (presses_run c z ps) as [z1 e1] eqn:Ep. cbn [fst snd] in *.
    rewrite Hk in I2. rewrite <- I2 in Hrel.
    destruct (releases_restore c Hne rs z1 _ I1 (I3 Hend) Hns Hrel Hrne) as (R1 & R2).
    pose proof (releases_text c rs z1) as Hrt.
    destruct (releases_run c z1 rs) as [z2 e2] eqn:Er. cbn [fst snd] in *.
    specialize (IH z2 R1 R2 Hwf').
    destruct (session_run c z2 rest) as [z3 e3] eqn:Es. cbn [snd] in *.
    rewrite !trun_app, Ht, Hrt, IH, Hk, <- app_assoc. reflexivity.
Qed.

(* non-vacuity: ab -> xa, abc -> xb, abcd -> yc; pressing a b c d leaves "yc" *)
Example overlapping_example :
  let o s := map (fun c => ZO 0 false c) s in
  let c := {| zc_wait := 500; zc_deadline := 500; zc_ss := 0; zc_punct := [];
              zc_chords := ZChords [([30; 48], (o [45; 30], None)); ([30; 46; 48], (o [45; 48], None));
                                    ([30; 32; 46; 48], (o [21; 46], None))] |} in
  trun [] (snd (presses_run c z_init [30; 48; 46; 32])) = [21; 46].
Proof. vm_compute. reflexivity. Qed.
