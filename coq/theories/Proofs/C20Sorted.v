(* C20, "in any order": the keys held are kept as a strictly increasing list by every press and release, and pressing the same set
   of keys in any order gives the same list - the one the dictionary lookup compares with its entries. *)
From Coq Require Import Lia Sorting.Sorted Permutation.
From KV Require Import Kanata.Zippy.
Local Open Scope N_scope.

Definition ssorted (l : list N) : Prop := StronglySorted N.lt l.

Lemma sorted_insert_in k l x : In x (sorted_insert k l) <-> x = k \/ In x l.
Proof.
  induction l as [|y r IH]; cbn [sorted_insert].
  - cbn. intuition.
  - destruct (N.eqb_spec k y) as [->|Hne].
    + cbn. intuition.
    + destruct (k <? y); cbn [In].
      * intuition.
      * rewrite IH. intuition.
Qed.

Lemma sorted_insert_sorted k l : ssorted l -> ssorted (sorted_insert k l).
Proof.
  unfold ssorted. induction l as [|y r IH]; intros H; cbn [sorted_insert].
  - repeat constructor.
  - destruct (N.eqb_spec k y) as [->|Hne]; [exact H|].
    destruct (N.ltb_spec k y) as [Hlt|Hge].
    + constructor; [exact H|]. constructor; [exact Hlt|].
      apply StronglySorted_inv in H. destruct H as [_ Hall]. eapply Forall_impl; [|exact Hall]. intros a Ha. cbn in Ha. lia.
    + apply StronglySorted_inv in H. destruct H as [Hr Hall]. constructor; [apply IH; exact Hr|].
      apply Forall_forall. intros x Hx. apply sorted_insert_in in Hx. destruct Hx as [->|Hx]; [lia|].
      exact (proj1 (Forall_forall _ _) Hall x Hx).
Qed.

Lemma remove_key_sorted k l : ssorted l -> ssorted (remove_key k l).
Proof.
  unfold ssorted, remove_key. induction l as [|y r IH]; intros H; cbn [filter]; [constructor|].
  apply StronglySorted_inv in H. destruct H as [Hr Hall].
  destruct (negb (y =? k)); [|apply IH; exact Hr].
  constructor; [apply IH; exact Hr|]. apply Forall_forall. intros x Hx. apply filter_In in Hx.
  exact (proj1 (Forall_forall _ _) Hall x (proj1 Hx)).
Qed.

(* a strictly increasing list is determined by its elements *)
Lemma ssorted_unique : forall a b, ssorted a -> ssorted b -> (forall x, In x a <-> In x b) -> a = b.
Proof.
  unfold ssorted. induction a as [|x a IH]; intros b Ha Hb Hin.
  - destruct b as [|y b]; [reflexivity|]. exfalso. apply (proj2 (Hin y)). left. reflexivity.
  - destruct b as [|y b]; [exfalso; apply (proj1 (Hin x)); left; reflexivity|].
    apply StronglySorted_inv in Ha. destruct Ha as [Ha Hax]. apply StronglySorted_inv in Hb. destruct Hb as [Hb Hby].
    assert (x = y).
    { destruct (proj1 (Hin x) (or_introl eq_refl)) as [E|Hxb]; [congruence|].
      destruct (proj2 (Hin y) (or_introl eq_refl)) as [E|Hya]; [congruence|].
      pose proof (proj1 (Forall_forall _ _) Hby x Hxb). pose proof (proj1 (Forall_forall _ _) Hax y Hya). cbn in *. lia. }
    subst y. f_equal. apply IH; [exact Ha|exact Hb|].
    intros z. split; intros Hz.
    + destruct (proj1 (Hin z) (or_intror Hz)) as [E|H']; [|exact H'].
      subst z. pose proof (proj1 (Forall_forall _ _) Hax x Hz). cbn in *. lia.
    + destruct (proj2 (Hin z) (or_intror Hz)) as [E|H']; [|exact H'].
      subst z. pose proof (proj1 (Forall_forall _ _) Hby x Hz). cbn in *. lia.
Qed.

Definition key_of (presses : list N) : list N := fold_left (fun ks k => sorted_insert k ks) presses [].

Lemma fold_insert_sorted : forall presses acc, ssorted acc -> ssorted (fold_left (fun ks k => sorted_insert k ks) presses acc).
Proof. induction presses as [|p r IH]; intros acc H; [exact H|]. cbn [fold_left]. apply IH. apply sorted_insert_sorted. exact H. Qed.
Lemma fold_insert_in : forall presses acc x,
  In x (fold_left (fun ks k => sorted_insert k ks) presses acc) <-> In x presses \/ In x acc.
Proof.
  induction presses as [|p r IH]; intros acc x; cbn [fold_left].
  - cbn. intuition.
  - rewrite IH, sorted_insert_in. cbn [In]. intuition.
Qed.

(* the same keys pressed in any order (also with repetitions) give the same lookup key *)
Theorem same_keys_any_order_same_lookup_key a b : (forall x, In x a <-> In x b) -> key_of a = key_of b.
Proof.
  intros H. apply ssorted_unique.
  - apply fold_insert_sorted. constructor.
  - apply fold_insert_sorted. constructor.
  - intros x. unfold key_of. rewrite !fold_insert_in. cbn [In]. rewrite (H x). tauto.
Qed.
Corollary permuted_presses_same_lookup_key a b : Permutation a b -> key_of a = key_of b.
Proof.
  intros P. apply same_keys_any_order_same_lookup_key. intros x. split; intros Hx.
  - exact (Permutation_in _ P Hx).
  - exact (Permutation_in _ (Permutation_sym P) Hx).
Qed.

(* the held keys stay strictly increasing through every press, release and tick *)
Theorem held_keys_stay_sorted_press c z osc : ssorted (z_keys z) -> ssorted (z_keys (fst (z_press c z osc))).
Proof.
  intros H. unfold z_press. destruct (zentries (zc_chords c)); [exact H|].
  destruct (osc =? 42); [exact H|]. destruct (osc =? 54); [exact H|]. destruct (osc =? 100); [exact H|].
  destruct (is_zippy_ignored osc); [exact H|].
  destruct (negb (zen_eqb (z_en z) ZEnabled)); [exact H|].
  match goal with |- context [match ?a with ZHas _ _ => _ | ZSubset => _ | ZNeither => _ end] => destruct a as [outp fol| |] end.
  - match goal with |- context [fold_left ?f ?l ?i] => destruct (fold_left f l i) as [[rl t2] e3] end.
    cbn [fst z_keys]. apply sorted_insert_sorted. exact H.
  - cbn [fst z_keys]. apply sorted_insert_sorted. exact H.
  - cbn [fst]. unfold z_soft_reset. cbn [z_keys]. constructor.
Qed.
Theorem held_keys_stay_sorted_release c z osc : ssorted (z_keys z) -> ssorted (z_keys (fst (z_release c z osc))).
Proof.
  intros H. unfold z_release. destruct (zentries (zc_chords c)); [exact H|].
  destruct (is_zippy_ignored osc); [exact H|].
  cbn [z_keys z_last_chord z_prio].
  pose proof (remove_key_sorted osc _ H) as Hr.
  destruct (z_last_chord z); destruct (remove_key osc (z_keys z)) as [|k0 kr] eqn:Ek; cbn [fst].
  - destruct (z_prio z); unfold z_clear_history; cbn [z_keys]; constructor.
  - cbn [z_keys]. exact Hr.
  - unfold z_clear_history. cbn [z_keys]. constructor.
  - unfold z_soft_reset. cbn [z_keys]. constructor.
Qed.
Theorem held_keys_stay_sorted c z osc : StronglySorted N.lt (z_keys z) ->
  StronglySorted N.lt (z_keys (fst (z_press c z osc))) /\ StronglySorted N.lt (z_keys (fst (z_release c z osc))).
Proof. intros H. split; [exact (held_keys_stay_sorted_press c z osc H)|exact (held_keys_stay_sorted_release c z osc H)]. Qed.

(* not vacuous *)
Example any_order_example : key_of [35; 30; 33] = [30; 33; 35] /\ key_of [33; 35; 30; 33] = [30; 33; 35].
Proof. split; reflexivity. Qed.
