(* The capacities and thresholds written into the hand-made model are those the source states now (Gen/Consts.v is
   regenerated from the Rust sources on every run): when a constant changes in the source this file stops compiling,
   which every check reports as a broken obligation. *)
From KV Require Import Gen.Consts Keyberon.Types Keyberon.ChordsV2 Kanata.DynMacro Kanata.Reload.

Lemma capacities_agree :
  N.of_nat QUEUE_SIZE = src_QUEUE_SIZE /\ QUEUE_LEN_MAX = src_QUEUE_LEN_MAX /\
  N.of_nat ACTION_QUEUE_LEN = src_ACTION_QUEUE_LEN /\ N.of_nat HISTORICAL_EVENT_LEN = src_HISTORICAL_EVENT_LEN /\
  N.of_nat EXTRA_WAITING_LEN = src_EXTRA_WAITING_LEN /\ N.of_nat STATES_CAP = src_STATES_CAP /\
  N.of_nat ACTIVE_SEQ_CAP = src_ACTIVE_SEQ_CAP /\ N.of_nat ONE_SHOT_MAX_ACTIVE = src_ONE_SHOT_MAX_ACTIVE /\
  N.of_nat MAX_ACTIVE_LAYERS = src_MAX_ACTIVE_LAYERS /\ N.of_nat RPT_BUFCAP = src_RPT_BUFCAP /\
  N.of_nat SMOL_Q_LEN = src_SMOL_Q_LEN /\ KEY_MAX_C = src_KEY_MAX.
Proof. repeat split; reflexivity. Qed.

(* constants that appear as literals inside model functions, pinned through the behaviour at the boundary *)
Lemma active_chords_capacity a c :
  push_active a c = if Nat.ltb (length (cv_active c)) (N.to_nat src_ACTIVE_CHORDS_CAP)
                    then Ok (set_cv_active (cv_active c ++ [a]) c) else Ok (no_chord_activations c).
Proof. reflexivity. Qed.

Lemma reload_fallback_threshold keys_up t :
  reload_due true keys_up t = (keys_up || (src_RELOAD_IDLE_TICKS <? t)).
Proof. reflexivity. Qed.

Lemma replay_pacing act id t recorded :
  tick_replay (Some {| dp_active := act; dp_delay_remaining := 0; dp_items := DMEnd id :: t |}) recorded =
  (Some {| dp_active := filter (fun x => negb (x =? id)) act; dp_delay_remaining := src_REPLAY_PACING; dp_items := t |}, None).
Proof. reflexivity. Qed.

(* mouse buttons: the model's table of button codes is the source's, and the code a button is written with (Linux output) is
   the code it was read from: the two regenerated tables are inverse to each other, for all five buttons *)
From KV Require Import Kanata.Glue.
Lemma button_codes_agree :
  forallb (fun p => match btn_of_code (fst p) with Some b => b =? snd p | None => false end) src_osc_to_btn = true /\
  length src_osc_to_btn = 5%nat.
Proof. split; reflexivity. Qed.

Lemma button_codes_round_trip :
  forallb (fun p => match btn_of_code (snd p) with Some b => b =? fst p | None => false end) src_btn_to_osc = true /\
  map fst src_btn_to_osc = [0; 1; 2; 3; 4].
Proof. split; reflexivity. Qed.

Lemma every_button_code_comes_out_as_itself code b :
  btn_of_code code = Some b -> In (b, code) src_btn_to_osc.
Proof.
  unfold btn_of_code.
  repeat match goal with |- context [?u =? ?v] => destruct (N.eqb_spec u v) end; intros H; inversion H; subst; cbn; tauto.
Qed.
