(* Basic lemmas about the Layout model shared by several properties. *)
From Coq Require Import Lia.
From KV Require Import Keyberon.Layout.

Lemma bind_ok {A B} (m : outcome A) (f : A -> outcome B) a : m = Ok a -> bind m f = f a.
Proof. intros ->. reflexivity. Qed.

(* ---- bounded containers ---- *)
Lemma wdeque_push_back_room {A} cap (x : A) l :
  (length l < cap)%nat -> wdeque_push_back cap x l = (l ++ [x], None).
Proof. intros H. unfold wdeque_push_back. apply Nat.ltb_lt in H. rewrite H. reflexivity. Qed.

Lemma wdeque_push_back_full {A} cap (x h : A) t :
  (cap <= length (h :: t))%nat -> wdeque_push_back cap x (h :: t) = (t ++ [x], Some h).
Proof.
  intros H. unfold wdeque_push_back.
  destruct (Nat.ltb_spec (length (h :: t)) cap); [lia|reflexivity].
Qed.

Lemma wdeque_push_back_length {A} cap (x : A) l :
  (0 < cap)%nat -> (length l <= cap)%nat -> (length (fst (wdeque_push_back cap x l)) <= cap)%nat.
Proof.
  intros Hc Hl. unfold wdeque_push_back.
  destruct (Nat.ltb_spec (length l) cap).
  - cbn [fst]. rewrite app_length. cbn. lia.
  - destruct l as [|h t]; cbn [fst]; [cbn; lia|]. rewrite app_length. cbn in *. lia.
Qed.

Lemma sat_push_back_room {A} cap (x : A) l :
  (length l < cap)%nat -> sat_push_back cap x l = (l ++ [x], true).
Proof. intros H. unfold sat_push_back. apply Nat.ltb_lt in H. rewrite H. reflexivity. Qed.

(* ---- Layout::event ---- *)
Definition mkq (p : bool) (c : coord) : queued := {| q_press := p; q_coord := c; q_since := 0 |}.

Lemma exec_S cfg f l k : exec cfg (S f) l k = body cfg (exec cfg f) l k.
Proof. reflexivity. Qed.

(* below 32 pending events an event is appended at the back of the queue and nothing else happens
   (a press also records its coordinate in the input history) *)
Lemma event_enqueues cfg l p c :
  (length (queue l) < QUEUE_SIZE)%nat ->
  layout_event cfg l p c =
    Ok (set_queue (queue l ++ [mkq p c])
          (if p then set_hist_inputs (hist_push_front c (hist_inputs l)) l else l)).
Proof.
  intros H. unfold layout_event. change FUEL with (S 399). rewrite exec_S.
  cbn [body]. unfold event_body.
  destruct p; cbn [queue set_hist_inputs];
    rewrite (wdeque_push_back_room QUEUE_SIZE _ _ H); reflexivity.
Qed.

(* ---- releases ---- *)
Definition at_coord (c : coord) (s : kstate) : bool :=
  match st_coord s with Some c' => coord_eqb c' c | None => false end.
Definition survives_release (c : coord) (skip_cnr : bool) (s : kstate) : bool :=
  negb (skip_cnr && st_clear_on_next_release s) && negb (at_coord c s).

Lemma release_states_filter c skip sts cu :
  fst (release_states c skip sts cu) = filter (survives_release c skip) sts.
Proof.
  revert cu. induction sts as [|s t IH]; intros cu; [reflexivity|].
  cbn [release_states filter]. unfold survives_release at 1.
  destruct (skip && st_clear_on_next_release s) eqn:E; cbn [negb andb].
  - apply IH.
  - destruct s; cbn [at_coord st_coord];
      try (destruct (coord_eqb c0 c); cbn [negb]; [apply IH|]);
      try (specialize (IH cu); destruct (release_states c skip t cu); cbn [fst] in *; rewrite IH; reflexivity).
    all: try (specialize (IH (cev_update cu (CRelease id))); exact IH).
Qed.

(* ---- transparent resolution ---- *)
Definition cell (cfg : lcfg) (ly x y : N) : option action :=
  match nth_error (layers cfg) (N.to_nat ly) with
  | Some (r0, r1) =>
    match (if x =? 0 then row_get r0 y else if x =? 1 then row_get r1 y else Panic "x") with
    | Ok a => Some a | _ => None end
  | None => None
  end.

Definition is_trans (a : action) : bool := match a with Trans => true | _ => false end.

Lemma resolve_loop_skips_trans cfg x y pre ly post a :
  Forall (fun l0 => cell cfg l0 x y = Some Trans) pre ->
  cell cfg ly x y = Some a -> is_trans a = false ->
  resolve_loop cfg x y (pre ++ ly :: post) = Ok (Some a, post).
Proof.
  intros Hpre Hly Hnt. induction Hpre as [|l0 pre' H0 _ IH].
  - cbn [app resolve_loop]. unfold cell in Hly.
    destruct (nth_error (layers cfg) (N.to_nat ly)) as [[r0 r1]|] eqn:En; [|discriminate].
    assert (Hlt : N.of_nat (length (layers cfg)) <? ly = false).
    { apply N.ltb_ge. assert (N.to_nat ly < length (layers cfg))%nat by (apply nth_error_Some; congruence). lia. }
    rewrite Hlt.
    destruct (if x =? 0 then row_get r0 y else if x =? 1 then row_get r1 y else Panic "x") as [a'| |] eqn:Er;
      try discriminate.
    inversion Hly; subst a'.
    assert (Hr : (if x =? 0 then row_get r0 y else if x =? 1 then row_get r1 y
                  else Panic "index out of bounds: layer rows") = Ok a).
    { destruct (x =? 0); [exact Er|]. destruct (x =? 1); [exact Er|discriminate]. }
    rewrite Hr. cbn [bind]. destruct a; try reflexivity. discriminate.
  - cbn [app resolve_loop]. unfold cell in H0.
    destruct (nth_error (layers cfg) (N.to_nat l0)) as [[r0 r1]|] eqn:En; [|discriminate].
    assert (Hlt : N.of_nat (length (layers cfg)) <? l0 = false).
    { apply N.ltb_ge. assert (N.to_nat l0 < length (layers cfg))%nat by (apply nth_error_Some; congruence). lia. }
    rewrite Hlt.
    destruct (if x =? 0 then row_get r0 y else if x =? 1 then row_get r1 y else Panic "x") as [a'| |] eqn:Er;
      try discriminate.
    inversion H0; subst a'.
    assert (Hr : (if x =? 0 then row_get r0 y else if x =? 1 then row_get r1 y
                  else Panic "index out of bounds: layer rows") = Ok Trans).
    { destruct (x =? 0); [exact Er|]. destruct (x =? 1); [exact Er|discriminate]. }
    rewrite Hr. cbn [bind]. exact IH.
Qed.

Lemma resolve_loop_all_trans cfg x y ls :
  Forall (fun l0 => cell cfg l0 x y = Some Trans) ls ->
  resolve_loop cfg x y ls = Ok (None, []).
Proof.
  intros H. induction H as [|l0 ls' H0 _ IH]; [reflexivity|].
  cbn [resolve_loop]. unfold cell in H0.
  destruct (nth_error (layers cfg) (N.to_nat l0)) as [[r0 r1]|] eqn:En; [|discriminate].
  assert (Hlt : N.of_nat (length (layers cfg)) <? l0 = false).
  { apply N.ltb_ge. assert (N.to_nat l0 < length (layers cfg))%nat by (apply nth_error_Some; congruence). lia. }
  rewrite Hlt.
  destruct (if x =? 0 then row_get r0 y else if x =? 1 then row_get r1 y else Panic "x") as [a'| |] eqn:Er;
    try discriminate.
  inversion H0; subst a'.
  assert (Hr : (if x =? 0 then row_get r0 y else if x =? 1 then row_get r1 y
                else Panic "index out of bounds: layer rows") = Ok Trans).
  { destruct (x =? 0); [exact Er|]. destruct (x =? 1); [exact Er|discriminate]. }
  rewrite Hr. cbn [bind]. exact IH.
Qed.

(* the order in which layers are searched: held layers newest first, then the base layer, then
   (when configured, and neither the active nor the base layer is the first layer) layer 0 *)
Lemma trans_order_v2 cfg l :
  trans_v2 cfg = true -> (length (active_held_layers l) < MAX_ACTIVE_LAYERS - 1)%nat ->
  trans_order cfg l =
    Ok (active_held_layers l ++ [default_layer l] ++
        (if delegate_first cfg && negb (current_layer l =? 0) && negb (default_layer l =? 0) then [0] else [])).
Proof.
  intros Hv Hlen. unfold trans_order. rewrite Hv.
  change MAX_ACTIVE_LAYERS with 12%nat in *.
  rewrite firstn_all2 by lia.
  rewrite (sat_push_back_room 12 (default_layer l) (active_held_layers l)) by lia. cbn [fst].
  destruct (delegate_first cfg && negb (current_layer l =? 0) && negb (default_layer l =? 0)).
  - rewrite sat_push_back_room by (rewrite app_length; cbn; lia). cbn [fst].
    rewrite <- app_assoc. reflexivity.
  - rewrite app_nil_r. reflexivity.
Qed.

Lemma trans_order_v1 cfg l :
  trans_v2 cfg = false ->
  trans_order cfg l =
    Ok (current_layer l :: (if delegate_first cfg && negb (current_layer l =? 0) then [0] else [])).
Proof.
  intros Hv. unfold trans_order. rewrite Hv.
  destruct (delegate_first cfg && negb (current_layer l =? 0)); reflexivity.
Qed.
