(* tick_ms(n): the general form used for loop iterations of several milliseconds, and its tie to the one-millisecond tick *)
From Coq Require Import Lia.
From KV Require Import Kanata.Glue Proofs.LayoutBasics.

(* tick_ms(1) of the general form is the one-millisecond tick all other theorems speak about (delays are u16 values) *)
Lemma k_tick_ms_one cfg k :
  (forall rp p key d, tick_replay (k_replay k) (kc_dyn_replay_recorded cfg) = (rp, Some (p, key, d)) -> d <= U16_MAX) ->
  (forall k1 o, tick_states cfg k = Ok (k1, o) ->
     forall rp p key d, tick_replay (k_replay k1) (kc_dyn_replay_recorded cfg) = (rp, Some (p, key, d)) -> d <= U16_MAX) ->
  k_tick_ms cfg 1 k = k_tick cfg k.
Proof.
  intros _ Hd. unfold k_tick_ms, k_tick. change (N.to_nat 1) with 1%nat. cbn [tick_ms_loop].
  destruct (tick_states cfg k) as [[k1 o]| |] eqn:Et; cbn [bind]; try reflexivity.
  destruct (tick_replay (k_replay k1) (kc_dyn_replay_recorded cfg)) as [rp [[[p key] d]|]] eqn:Er.
  - destruct (lay_event cfg _ p (0, key)) as [l| |]; cbn [bind]; try reflexivity.
    cbn [app]. assert (E : sat_add16 0 d = d) by (unfold sat_add16; pose proof (Hd k1 o eq_refl rp p key d Er); lia). rewrite E. reflexivity.
  - cbn [bind app]. reflexivity.
Qed.
