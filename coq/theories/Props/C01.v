(* C01 — no stuck output.  Pinned statements: the ownership facts, and the global statement as a whole-run theorem
   for the fragment of C04 (layered keymaps): after every pressed key has been released and the pending events have
   been applied, the keyberon layout model holds nothing and is quiet.  For the whole action grammar the global
   statement is NOT proved: it is covered by the kanata-level correspondence plus the end-state oracle, with open
   known findings (see known_findings.json): partial. *)
From KV Require Import Kanata.Glue Proofs.LayoutBasics Proofs.C07Proofs Proofs.C08Proofs Proofs.C06Proofs Proofs.C01Proofs.

Theorem C01_release_leaves_nothing_at_coord : forall c sts cu s,
  In s (fst (release_states c true sts cu)) -> at_coord c s = false.
Proof. exact release_leaves_nothing_at_coord. Qed.
Print Assumptions C01_release_leaves_nothing_at_coord.

Theorem C01_evicted_macro_releases_its_keys : forall old l kc,
  In (SRelease kc) (ss_remaining old) -> ~ In (FakeKey kc) (states (release_evicted old l)).
Proof. exact evicted_macro_releases_its_keys. Qed.
Print Assumptions C01_evicted_macro_releases_its_keys.

Theorem C01_cancel_leaves_no_macro_key : forall l,
  active_sequences (cancel_macros l) = [] /\ fake_keys (cancel_macros l) = [].
Proof. exact cancel_macros_clears. Qed.
Print Assumptions C01_cancel_leaves_no_macro_key.

Theorem C01_oneshot_end_clears_everything : forall o,
  os_active o -> (os_release_next o = true \/ os_timeout o <= 1) ->
  exists o', os_tick o = (o', Some (os_released o)) /\ os_keys o' = [] /\ os_released o' = [] /\
             os_other o' = [] /\ os_timeout o' = 0 /\ os_release_next o' = false /\ os_pause_ticks o' = 0.
Proof. exact os_tick_ends. Qed.
Print Assumptions C01_oneshot_end_clears_everything.

Theorem C01_quiet_is_absorbing_and_silent : forall cfg (n : nat) l, quiet l ->
  forall k, (k < n)%nat -> layout_tick cfg (aged_n k l) = Ok (aged_n (S k) l, CNone).
Proof. exact quiet_forever. Qed.
Print Assumptions C01_quiet_is_absorbing_and_silent.

Theorem C01_quiet_keeps_key_list : forall n l, keycodes (aged_n n l) = keycodes l.
Proof. exact aged_n_keycodes. Qed.
Print Assumptions C01_quiet_keeps_key_list.

(* ---- the global statement on the fragment of C04 (Spec/Keymap.v, Proofs/C04Refine.v, Proofs/C01Fragment.v) ----
   pending_after 0 is = 0: as many ticks as needed to apply every event; pset (arrivals is) = []: every coordinate that
   was pressed has been released afterwards.  l_final runs Layout::event / Layout::tick over the inputs. *)
From KV Require Import Spec.Keymap Proofs.C04Refine Proofs.C01Fragment.
Theorem C01_fragment_no_stuck_keys : forall cfg pause is,
  frag_cfg cfg = true -> hist_ok cfg 0 is = true ->
  pending_after 0 is = 0%nat -> pset (arrivals is) = [] ->
  exists l', l_final cfg (init_layout pause) is = Ok l' /\ keycodes l' = [] /\ states l' = [] /\ quiet l'.
Proof. exact fragment_no_stuck_keys. Qed.
Print Assumptions C01_fragment_no_stuck_keys.

(* the same on the layered-keymap spec alone, for every configuration: everything held is tagged with a coordinate
   that is down; nothing is held once every coordinate is up and every event applied *)
Theorem C01_keymap_spec_no_stuck_keys : forall cfg is,
  km_pending (km_final cfg km_init is) = [] -> pset (arrivals is) = [] ->
  held (km_st (km_final cfg km_init is)) = [].
Proof. exact spec_no_stuck_keys. Qed.
Print Assumptions C01_keymap_spec_no_stuck_keys.

Theorem C01_fragment_not_vacuous :
  frag_cfg ex_cfg = true /\ hist_ok ex_cfg 0 (ex_hist ++ [KmEvent false (0, 1); KmEvent false (0, 2); KmEvent false (0, 4); KmTick; KmTick; KmTick]) = true /\
  pending_after 0 (ex_hist ++ [KmEvent false (0, 1); KmEvent false (0, 2); KmEvent false (0, 4); KmTick; KmTick; KmTick]) = 0%nat /\
  pset (arrivals (ex_hist ++ [KmEvent false (0, 1); KmEvent false (0, 2); KmEvent false (0, 4); KmTick; KmTick; KmTick])) = [].
Proof. exact fragment_no_stuck_keys_not_vacuous. Qed.
Print Assumptions C01_fragment_not_vacuous.

(* the same at the OS, through the kanata model (tick_ms / handle_keystate_changes): an observer replays everything the OS was
   told, per key code (down after its press event -- key-down, or button-down for the mouse-button codes -- up after its release
   event).  After any covered history it says "down" exactly for the visible codes (not in the ignored range, not a wheel code)
   of the layered-keymap model's held key list; hence, once every pressed coordinate has been released and every event has been
   applied, nothing is down at the OS *)
From KV Require Import Proofs.C04Kanata Proofs.C01Kanata.
Theorem C01_kanata_fragment_nothing_down_at_os : forall cfg pause is,
  kfrag cfg -> hist_ok (kc_layout cfg) 0 is = true -> physical is = true ->
  pending_after 0 is = 0%nat -> pset (arrivals is) = [] ->
  exists outs, k_run cfg (k_init (init_layout pause)) is = Ok outs /\
               forall x, os_code_down x (concat outs) false = false.
Proof. exact kanata_fragment_nothing_down_at_os. Qed.
Print Assumptions C01_kanata_fragment_nothing_down_at_os.

Theorem C01_kanata_fragment_os_view_is_held_list : forall cfg pause is x,
  kfrag cfg -> hist_ok (kc_layout cfg) 0 is = true -> physical is = true ->
  exists outs, k_run cfg (k_init (init_layout pause)) is = Ok outs /\
               os_code_down x (concat outs) false =
               vis cfg x && mem_n x (km_keys (held (km_st (km_final (kc_layout cfg) km_init is)))).
Proof. exact kanata_fragment_os_view_is_held_list. Qed.
Print Assumptions C01_kanata_fragment_os_view_is_held_list.
