(* C01 — no stuck output.  Pinned statements: the ownership facts proved so far.  The global
   statement (from every reachable state with all keys up, quiescence within a bound) is NOT proved:
   it is covered by the kanata-level correspondence plus the end-state oracle, with one open known
   finding (custom-release-lost, see known_findings.json): partial. *)
From KV Require Import Kanata.Glue Proofs.LayoutBasics Proofs.C07Proofs Proofs.C08Proofs Proofs.C06Proofs Proofs.C01Proofs.

Theorem C01_release_leaves_nothing_at_coord : forall c sts cu s,
  In s (fst (release_states c true sts cu)) -> at_coord c s = false.
Proof. exact release_leaves_nothing_at_coord. Qed.
Print Assumptions C01_release_leaves_nothing_at_coord.

Theorem C01_evicted_macro_releases_its_keys : forall old l kc,
  In (SRelease kc) (ss_remaining old) -> ~ In (FakeKey kc) (states (release_evicted old l)).
Proof. exact evicted_macro_releases_its_keys. Qed.
Print Assumptions C01_evicted_macro_releases_its_keys.

Theorem C01_cancel_leaves_no_macro_key : forall l,
  active_sequences (cancel_macros l) = [] /\ fake_keys (cancel_macros l) = [].
Proof. exact cancel_macros_clears. Qed.
Print Assumptions C01_cancel_leaves_no_macro_key.

Theorem C01_oneshot_end_clears_everything : forall o,
  os_active o -> (os_release_next o = true \/ os_timeout o <= 1) ->
  exists o', os_tick o = (o', Some (os_released o)) /\ os_keys o' = [] /\ os_released o' = [] /\
             os_other o' = [] /\ os_timeout o' = 0 /\ os_release_next o' = false /\ os_pause_ticks o' = 0.
Proof. exact os_tick_ends. Qed.
Print Assumptions C01_oneshot_end_clears_everything.

Theorem C01_quiet_is_absorbing_and_silent : forall cfg (n : nat) l, quiet l ->
  forall k, (k < n)%nat -> layout_tick cfg (aged_n k l) = Ok (aged_n (S k) l, CNone).
Proof. exact quiet_forever. Qed.
Print Assumptions C01_quiet_is_absorbing_and_silent.

Theorem C01_quiet_keeps_key_list : forall n l, keycodes (aged_n n l) = keycodes l.
Proof. exact aged_n_keycodes. Qed.
Print Assumptions C01_quiet_keeps_key_list.
