(* C02 — an accepted configuration never crashes or hangs event processing.
   Pinned statements: panic sites of the model proved unreachable and capacity invariants.  The
   whole-model statement (no Panic / OutOfFuel outcome for every accepted configuration and every
   history) is NOT proved; it is covered by the correspondence, in which every panic site is an
   explicit outcome compared with the implementation on hostile histories: partial. *)
From KV Require Import Kanata.Glue Spec.BoolSpec Proofs.LayoutBasics Proofs.C10Eval Proofs.C07Proofs Proofs.C02Proofs.

Theorem C02_release_never_panics : forall cfg rec l c,
  exists l' cu, dequeue cfg rec l {| q_press := false; q_coord := c; q_since := 0 |} = Ok (l', cu).
Proof. exact release_never_panics. Qed.
Print Assumptions C02_release_never_panics.

Theorem C02_event_below_capacity_never_panics : forall cfg l p c,
  (length (queue l) < QUEUE_SIZE)%nat -> exists l', layout_event cfg l p c = Ok l'.
Proof. exact (fun cfg l p c H => ex_intro _ _ (event_enqueues cfg l p c H)). Qed.
Print Assumptions C02_event_below_capacity_never_panics.

Theorem C02_queue_bounded : forall cfg l p c l',
  (length (queue l) <= QUEUE_SIZE)%nat -> (length (queue l) < QUEUE_SIZE)%nat ->
  layout_event cfg l p c = Ok l' -> (length (queue l') <= QUEUE_SIZE)%nat.
Proof. exact queue_bounded. Qed.
Print Assumptions C02_queue_bounded.

Theorem C02_switch_never_panics : forall env cs,
  Forall wf_case cs -> exists acs, switch_actions (map compile_case cs) env = Ok acs.
Proof. exact switch_never_panics. Qed.
Print Assumptions C02_switch_never_panics.

Theorem C02_tapdance_index_in_range : forall (acs : list action) n,
  acs <> [] -> exists a, nth_error acs (N.to_nat (sat_sub (N.min n (N.of_nat (length acs))) 1)) = Some a.
Proof. exact tapdance_index_in_range. Qed.
Print Assumptions C02_tapdance_index_in_range.

Theorem C02_quiet_tick_never_panics : forall cfg l, quiet l -> exists l', layout_tick cfg l = Ok (l', CNone).
Proof. exact quiet_tick_never_panics. Qed.
Print Assumptions C02_quiet_tick_never_panics.

Theorem C02_bounded_push : forall (A : Type) cap (x : A) l,
  (length l <= cap)%nat -> (length (fst (sat_push_back cap x l)) <= cap)%nat.
Proof. exact (fun A => @sat_push_back_length A). Qed.
Print Assumptions C02_bounded_push.

(* on the fragment of C04 the whole-model statement is a theorem: no Panic and no OutOfFuel outcome for any covered
   history (corollary of the refinement theorem) *)
From KV Require Import Spec.Keymap Proofs.C04Refine.
Theorem C02_fragment_never_panics : forall cfg pause is,
  frag_cfg cfg = true -> hist_ok cfg 0 is = true ->
  exists outs, l_run cfg (init_layout pause) is = Ok outs.
Proof. exact fragment_never_panics. Qed.
Print Assumptions C02_fragment_never_panics.

(* the same through the kanata model (one millisecond = tick_ms(1)): no Panic / OutOfFuel outcome for any covered history *)
From KV Require Import Kanata.Glue Proofs.C04Kanata Proofs.C01Kanata.
Theorem C02_kanata_fragment_never_panics : forall cfg pause is,
  kfrag cfg -> hist_ok (kc_layout cfg) 0 is = true -> physical is = true ->
  exists outs, k_run cfg (k_init (init_layout pause)) is = Ok outs.
Proof. exact kanata_fragment_never_panics. Qed.
Print Assumptions C02_kanata_fragment_never_panics.
