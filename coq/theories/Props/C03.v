(* C03 — pinned statements.  Nothing but Theorem / exact / Print Assumptions.
   Scope: the s-expression layer (parser/src/cfg/sexpr.rs) and the variable table of parse_vars.  The item and
   action parsers above it are not modelled; the check searches them on the real code (see checks/c03.py). *)
From KV Require Import Parser.Sexpr Proofs.C03Proofs.

(* Every UTF-8 text: lexing and list building end with a result (no panic site — Position::new / Span::new /
   Span::cover assertions, `expect`s of the stack builder, str slicing off a char boundary — is reached and the
   fuel |text|+1 suffices); an error's span lies inside the text on char boundaries (what rendering needs), and
   every span of every node of the produced tree does too. *)
Theorem C03_sexpr_layer_total : forall ignore text, utf8_ok text = true ->
  exists r, parse_ ignore text = Ok r /\ result_ok (strip_bom text) r.
Proof. exact parse_total. Qed.
Print Assumptions C03_sexpr_layer_total.

(* parse_vars: inserting any list of definitions ends (the self-reference search never runs out of fuel) and an
   accepted table has no reference cycle *)
Theorem C03_accepted_variable_tables_are_acyclic : forall defs,
  exists r, insert_vars [] defs = Ok r /\ match r with inl _ => True | inr vs => acyclic vs end.
Proof. exact vars_insertion_total. Qed.
Print Assumptions C03_accepted_variable_tables_are_acyclic.

(* on an accepted table SExpr::atom / SExpr::list follow at most |vars| references: the recursion is bounded *)
Theorem C03_variable_resolution_bounded : forall defs vs e,
  insert_vars [] defs = Ok (inr vs) ->
  (exists r, atom_res (length vs) vs e = Ok r) /\ (exists r, list_res (length vs) vs e = Ok r).
Proof. exact vars_resolution_bounded. Qed.
Print Assumptions C03_variable_resolution_bounded.

(* the rejection removes nothing else: a definition is refused as self-referential exactly when its value reaches
   its own name *)
Theorem C03_self_reference_rejected_exactly : forall vs name v, acyclic vs -> lookup name vs = None ->
  (insert_var vs name v = Ok (inl VSelfRef) <-> reaches vs v name).
Proof. exact self_reference_rejected_exactly. Qed.
Print Assumptions C03_self_reference_rejected_exactly.
