(* C04 — layered remapping fidelity.  Pinned statements: the decision rules of the property stated on
   the model's functions, and the refinement theorem: on the fragment of the property the keyberon
   layout model (queues, waiting states, one-shot, sequences, chords ... all present) produces, for
   every history, exactly the key lists of the simple layered-keymap model of Spec/Keymap.v. *)
From KV Require Import Spec.Keymap Kanata.Glue Proofs.LayoutBasics Proofs.C04Refine Proofs.C04Kanata.

(* no event is lost, duplicated or reordered while fewer than 32 are pending: an event is appended
   at the back of the queue and has no other effect *)
Theorem C04_event_fifo : forall cfg l p c,
  (length (queue l) < QUEUE_SIZE)%nat ->
  layout_event cfg l p c =
    Ok (set_queue (queue l ++ [mkq p c])
          (if p then set_hist_inputs (hist_push_front c (hist_inputs l)) l else l)).
Proof. exact event_enqueues. Qed.
Print Assumptions C04_event_fifo.

(* a release undoes exactly what was done at that coordinate, whatever the layers are now: the
   states that survive are those not created at the coordinate (and not flagged clear-on-release) *)
Theorem C04_release_removes_exactly : forall c skip sts cu,
  fst (release_states c skip sts cu) = filter (survives_release c skip) sts.
Proof. exact release_states_filter. Qed.
Print Assumptions C04_release_removes_exactly.

(* a press performs the first non-transparent action in the search order ... *)
Theorem C04_resolve_first_nontrans : forall cfg x y pre ly post a,
  Forall (fun l0 => cell cfg l0 x y = Some Trans) pre ->
  cell cfg ly x y = Some a -> is_trans a = false ->
  resolve_loop cfg x y (pre ++ ly :: post) = Ok (Some a, post).
Proof. exact resolve_loop_skips_trans. Qed.
Print Assumptions C04_resolve_first_nontrans.

Theorem C04_resolve_all_trans : forall cfg x y ls,
  Forall (fun l0 => cell cfg l0 x y = Some Trans) ls ->
  resolve_loop cfg x y ls = Ok (None, []).
Proof. exact resolve_loop_all_trans. Qed.
Print Assumptions C04_resolve_all_trans.

(* ... and the search order is: held layers from most recently activated to oldest, then the base
   layer, then the first layer when so configured *)
Theorem C04_search_order_layer_stack : forall cfg l,
  trans_v2 cfg = true -> (length (active_held_layers l) < MAX_ACTIVE_LAYERS - 1)%nat ->
  trans_order cfg l =
    Ok (active_held_layers l ++ [default_layer l] ++
        (if delegate_first cfg && negb (current_layer l =? 0) && negb (default_layer l =? 0) then [0] else [])).
Proof. exact trans_order_v2. Qed.
Print Assumptions C04_search_order_layer_stack.

Theorem C04_search_order_to_base : forall cfg l,
  trans_v2 cfg = false ->
  trans_order cfg l =
    Ok (current_layer l :: (if delegate_first cfg && negb (current_layer l =? 0) then [0] else [])).
Proof. exact trans_order_v1. Qed.
Print Assumptions C04_search_order_to_base.

(* ---- refinement to the layered-keymap model (Spec/Keymap.v) ----
   frag_cfg: every cell is built from plain keys, output chords, multi (nesting <= 30), no-op,
   transparent, use-defsrc, layer-while-held of an existing layer, layer-switch, release-key/layer;
   hist_ok: events are for coordinates of the tables and arrive while fewer than 32 are pending.
   l_run feeds the inputs to Layout::event / Layout::tick and lists the keys held after each input. *)
Theorem C04_refines_layered_keymap : forall cfg pause is,
  frag_cfg cfg = true -> hist_ok cfg 0 is = true ->
  l_run cfg (init_layout pause) is = Ok (km_run cfg km_init is).
Proof. exact fresh_run_refines. Qed.
Print Assumptions C04_refines_layered_keymap.

(* the same from any state related to a keymap state (nothing pending but queued events) *)
Theorem C04_refinement_from_related_state : forall cfg, frag_cfg cfg = true ->
  forall is l m, SysRel cfg l m -> hist_ok cfg (length (km_pending m)) is = true ->
  l_run cfg l is = Ok (km_run cfg m is).
Proof. exact run_refines. Qed.
Print Assumptions C04_refinement_from_related_state.

(* one tick: the oldest pending event, and only it, takes effect; the state stays related *)
Theorem C04_tick_applies_oldest_event : forall cfg qq l s,
  frag_cfg cfg = true -> Rel qq l s -> st_ok cfg s ->
  Forall (fun q => coord_ok cfg (q_coord q) = true) qq ->
  exists l', layout_tick cfg l = Ok (l', CNone) /\
    match qq with
    | [] => Rel [] l' s
    | e :: t => Rel (aged_q t) l' (if q_press e then km_press cfg (q_coord e) s else km_release (q_coord e) s)
    end.
Proof. exact tick_refines. Qed.
Print Assumptions C04_tick_applies_oldest_event.

(* the hypotheses hold for a concrete configuration and history with layers, chords, multi + transparent *)
Theorem C04_refinement_not_vacuous :
  frag_cfg ex_cfg = true /\ hist_ok ex_cfg 0 ex_hist = true /\
  km_run ex_cfg km_init ex_hist =
    [[]; []; []; [31]; [31]; [31]; [31]; [31; 29; 46]; [31; 29; 46]; [31; 29; 46]; [29; 46]; [];
     []; []; []; []; [5; 29; 46]; [5; 4]].
Proof. exact refinement_not_vacuous. Qed.
Print Assumptions C04_refinement_not_vacuous.

(* ---- the kanata level (src/kanata/mod.rs tick_ms / handle_keystate_changes as modelled in Kanata/Glue.v) ----
   kfrag: layout tables in the fragment, no defoverrides, sequences not always on.  One millisecond emits exactly the
   ordered, de-duplicated difference of the held key list: releases of keys no longer held (in the order they were held),
   then presses of new keys (in keymap order); the whole OS event trace of a run equals that of the layered-keymap model. *)
Theorem C04_kanata_tick_emits_ordered_difference : forall cfg qq k s,
  kfrag cfg -> KRel qq k s -> st_ok (kc_layout cfg) s ->
  Forall (fun q => coord_ok (kc_layout cfg) (q_coord q) = true) qq ->
  exists k' qq' s',
    k_tick cfg k = Ok (k', os_diff cfg (k_prev_keys k) (km_keys (held s'))) /\
    KRel qq' k' s' /\ k_prev_keys k' = km_keys (held s') /\
    match qq with
    | [] => qq' = [] /\ s' = s
    | e :: t => qq' = aged_q t /\ s' = (if q_press e then km_press (kc_layout cfg) (q_coord e) s else km_release (q_coord e) s)
    end.
Proof. exact tick_kanata_refines. Qed.
Print Assumptions C04_kanata_tick_emits_ordered_difference.

Theorem C04_kanata_output_refines : forall cfg pause is,
  kfrag cfg -> hist_ok (kc_layout cfg) 0 is = true -> physical is = true ->
  k_run cfg (k_init (init_layout pause)) is = Ok (km_os_run cfg km_init [] is).
Proof. exact fresh_k_run_refines. Qed.
Print Assumptions C04_kanata_output_refines.

Theorem C04_kanata_refinement_not_vacuous :
  frag_cfg (kc_layout ex_kcfg) = true /\ kc_overrides ex_kcfg = [] /\ kc_seq_always_on ex_kcfg = false /\
  hist_ok (kc_layout ex_kcfg) 0 ex_hist = true /\ physical ex_hist = true /\
  km_os_run ex_kcfg km_init [] ex_hist =
    [[]; []; []; [KDown 31]; []; []; []; [KDown 29; KDown 46]; []; []; [KUp 31]; [KUp 29; KUp 46];
     []; []; []; []; [KDown 5; KDown 29; KDown 46]; [KUp 29; KUp 46; KDown 4]].
Proof. exact kanata_refinement_not_vacuous. Qed.
Print Assumptions C04_kanata_refinement_not_vacuous.
