(* C04 — layered remapping fidelity.  Pinned statements (first layer of the development: the
   decision rules of the property stated on the model's functions). *)
From KV Require Import Keyberon.Layout Proofs.LayoutBasics.

(* no event is lost, duplicated or reordered while fewer than 32 are pending: an event is appended
   at the back of the queue and has no other effect *)
Theorem C04_event_fifo : forall cfg l p c,
  (length (queue l) < QUEUE_SIZE)%nat ->
  layout_event cfg l p c =
    Ok (set_queue (queue l ++ [mkq p c])
          (if p then set_hist_inputs (hist_push_front c (hist_inputs l)) l else l)).
Proof. exact event_enqueues. Qed.
Print Assumptions C04_event_fifo.

(* a release undoes exactly what was done at that coordinate, whatever the layers are now: the
   states that survive are those not created at the coordinate (and not flagged clear-on-release) *)
Theorem C04_release_removes_exactly : forall c skip sts cu,
  fst (release_states c skip sts cu) = filter (survives_release c skip) sts.
Proof. exact release_states_filter. Qed.
Print Assumptions C04_release_removes_exactly.

(* a press performs the first non-transparent action in the search order ... *)
Theorem C04_resolve_first_nontrans : forall cfg x y pre ly post a,
  Forall (fun l0 => cell cfg l0 x y = Some Trans) pre ->
  cell cfg ly x y = Some a -> is_trans a = false ->
  resolve_loop cfg x y (pre ++ ly :: post) = Ok (Some a, post).
Proof. exact resolve_loop_skips_trans. Qed.
Print Assumptions C04_resolve_first_nontrans.

Theorem C04_resolve_all_trans : forall cfg x y ls,
  Forall (fun l0 => cell cfg l0 x y = Some Trans) ls ->
  resolve_loop cfg x y ls = Ok (None, []).
Proof. exact resolve_loop_all_trans. Qed.
Print Assumptions C04_resolve_all_trans.

(* ... and the search order is: held layers from most recently activated to oldest, then the base
   layer, then the first layer when so configured *)
Theorem C04_search_order_layer_stack : forall cfg l,
  trans_v2 cfg = true -> (length (active_held_layers l) < MAX_ACTIVE_LAYERS - 1)%nat ->
  trans_order cfg l =
    Ok (active_held_layers l ++ [default_layer l] ++
        (if delegate_first cfg && negb (current_layer l =? 0) && negb (default_layer l =? 0) then [0] else [])).
Proof. exact trans_order_v2. Qed.
Print Assumptions C04_search_order_layer_stack.

Theorem C04_search_order_to_base : forall cfg l,
  trans_v2 cfg = false ->
  trans_order cfg l =
    Ok (current_layer l :: (if delegate_first cfg && negb (current_layer l =? 0) then [0] else [])).
Proof. exact trans_order_v1. Qed.
Print Assumptions C04_search_order_to_base.
