(* C05 — tap-hold resolves every press to exactly one of tap / hold / timeout, on time.
   Pinned statements about the model's decision function (handle_hold_tap / tick_wt) and the
   consumption of the pending state. *)
From KV Require Import Keyberon.Layout Proofs.LayoutBasics Proofs.C05Proofs.

(* with no other input, for EVERY hold timeout H = n+1 >= 1: nothing is decided during the first
   H-1 ticks and the timeout (hold) action is chosen exactly at tick H *)
Theorem C05_hold_exactly_at_timeout : forall (n : nat) w q,
  no_own_release w q -> w_timeout w = N.of_nat (S n) ->
  (forall k, (k < n)%nat -> snd (handle_hold_tap (ticked (quiet_ticks k w q)) HTDefault q) = None) /\
  snd (handle_hold_tap (ticked (quiet_ticks n w q)) HTDefault q) = Some WATimeout.
Proof. exact hold_exactly_at_timeout. Qed.
Print Assumptions C05_hold_exactly_at_timeout.

(* own release seen and no early trigger: tap iff the timeout had not elapsed when it arrived *)
Theorem C05_release_decides : forall w cfg q qd,
  fst (early cfg q) = None ->
  find (q_is_release_at (w_coord w)) q = Some qd ->
  (qlen q =? w_prev_queue_len w) && (0 <? w_timeout w) = false ->
  snd (handle_hold_tap w cfg q) =
    Some (if sat_sub (w_delay w) (q_since qd) <? w_timeout w then WATap else WATimeout).
Proof. exact release_decides. Qed.
Print Assumptions C05_release_decides.

(* the complete decision function (slow path) *)
Theorem C05_decision_function : forall w cfg q,
  (qlen q =? w_prev_queue_len w) && (0 <? w_timeout w) = false ->
  snd (handle_hold_tap w cfg q) =
    match fst (early cfg q) with
    | Some a => Some a
    | None =>
      match find (q_is_release_at (w_coord w)) q with
      | Some qd => if sat_sub (w_delay w) (q_since qd) <? w_timeout w then Some WATap else Some WATimeout
      | None => if (w_timeout w =? 0) && negb (snd (early cfg q)) then Some WATimeout else None
      end
    end.
Proof. exact handle_hold_tap_slow. Qed.
Print Assumptions C05_decision_function.

Theorem C05_press_variant : forall w q,
  existsb q_press q = true ->
  (qlen q =? w_prev_queue_len w) && (0 <? w_timeout w) = false ->
  snd (handle_hold_tap w HTHoldOnOtherKeyPress q) = Some WAHold.
Proof. exact press_variant_holds_on_other_press. Qed.
Print Assumptions C05_press_variant.

Theorem C05_release_variant : forall w q,
  permissive_scan q = true ->
  (qlen q =? w_prev_queue_len w) && (0 <? w_timeout w) = false ->
  snd (handle_hold_tap w HTPermissiveHold q) = Some WAHold.
Proof. exact release_variant_holds_on_press_release. Qed.
Print Assumptions C05_release_variant.

(* "another key pressed and released" means: some press is followed later by its own release *)
Theorem C05_release_variant_trigger : forall q,
  permissive_scan q = true <->
  exists pre x post, q = pre ++ x :: post /\ q_press x = true /\
                     existsb (q_is_release_at (q_coord x)) post = true.
Proof. exact permissive_scan_spec. Qed.
Print Assumptions C05_release_variant_trigger.

Theorem C05_release_keys_variant : forall w ks q pre x post,
  q = pre ++ x :: post -> Forall (fun y => q_press y = false) pre ->
  q_press x = true -> mem_n (snd (q_coord x)) ks = true ->
  (qlen q =? w_prev_queue_len w) && (0 <? w_timeout w) = false ->
  snd (handle_hold_tap w (HTReleaseKeys ks) q) = Some WATap.
Proof. exact release_keys_tap_on_listed. Qed.
Print Assumptions C05_release_keys_variant.

(* exactly one: the decision removes the pending state before performing its single action *)
Theorem C05_hold_consumes_pending : forall rec l w,
  waiting_ l = Some w ->
  waiting_into_hold rec l (-1)%Z =
    (delay <- waiting_delay w ;;
     rec (set_oneshot (set_os_pause_ticks (os_pause_delay (oneshot l)) (oneshot l))
            (let l1 := set_waiting_ None l in
             if coord_eqb (w_coord w) (lpt_coord l1) then set_lpt_timeout 0 l1 else l1))
         (CDoAction (w_hold w) (w_coord w) delay false (w_layer_stack w))).
Proof. exact waiting_into_hold_consumes. Qed.
Print Assumptions C05_hold_consumes_pending.

Theorem C05_timeout_consumes_pending : forall rec l w,
  waiting_ l = Some w ->
  waiting_into_timeout rec l (-1)%Z =
    (delay <- waiting_delay w ;;
     rec (let l1 := set_waiting_ None l in
          if coord_eqb (w_coord w) (lpt_coord l1) then set_lpt_timeout 0 l1 else l1)
         (CDoAction (w_timeout_ac w) (w_coord w) delay false (w_layer_stack w))).
Proof. exact waiting_into_timeout_consumes. Qed.
Print Assumptions C05_timeout_consumes_pending.

(* keys pressed while the decision is pending (fewer than 32) are only queued, in arrival order *)
Theorem C05_buffered_while_pending : forall cfg l p c w,
  waiting_ l = Some w -> (length (queue l) < QUEUE_SIZE)%nat ->
  exists l', layout_event cfg l p c = Ok l' /\ states l' = states l /\ waiting_ l' = Some w /\
             queue l' = queue l ++ [mkq p c].
Proof. exact event_while_waiting_only_queues. Qed.
Print Assumptions C05_buffered_while_pending.
