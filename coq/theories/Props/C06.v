(* C06 — one-shot applies to exactly the next key, or expires; it never lingers.  Pinned statements
   about the model's one-shot state machine. *)
From KV Require Import Keyberon.Layout Proofs.LayoutBasics Proofs.C06Proofs.

Theorem C06_expires_exactly_at_timeout : forall (n : nat) o,
  os_active o -> os_release_next o = false -> os_timeout o = N.of_nat (S n) ->
  (forall k, (k < n)%nat -> snd (os_tick (os_ticks k o)) = None /\ os_keys (os_ticks (S k) o) = os_keys o) /\
  snd (os_tick (os_ticks n o)) = Some (os_released o) /\ os_keys (os_ticks (S n) o) = [].
Proof. exact oneshot_expires_exactly_at_timeout. Qed.
Print Assumptions C06_expires_exactly_at_timeout.

Theorem C06_end_clears_everything : forall o,
  os_active o -> (os_release_next o = true \/ os_timeout o <= 1) ->
  exists o', os_tick o = (o', Some (os_released o)) /\ os_keys o' = [] /\ os_released o' = [] /\
             os_other o' = [] /\ os_timeout o' = 0 /\ os_release_next o' = false /\ os_pause_ticks o' = 0.
Proof. exact os_tick_ends. Qed.
Print Assumptions C06_end_clears_everything.

Theorem C06_press_variant_next_press_ends : forall o c,
  os_active o -> os_ignore_ticks o = 0 -> is_press_cfg (os_end_config o) = true ->
  os_handle_press o (OSOther c) =
    (set_os_pause_ticks (os_pause_delay o) (set_os_timeout (N.min (os_pause_delay o) (os_timeout o)) o), os_keys o).
Proof. exact os_press_variant_other_press. Qed.
Print Assumptions C06_press_variant_next_press_ends.

Theorem C06_release_variant_next_release_ends : forall o c,
  os_active o -> mem_coord c (os_keys o) = false ->
  is_release_cfg (os_end_config o) = true -> mem_coord c (os_other o) = true ->
  os_handle_release o c = (set_os_release_next true o, true, None).
Proof. exact os_release_variant_other_release. Qed.
Print Assumptions C06_release_variant_next_release_ends.

Theorem C06_own_release_deferred : forall o c,
  mem_coord c (os_keys o) = true -> (length (os_released o) < ONE_SHOT_MAX_ACTIVE)%nat ->
  os_handle_release o c = (set_os_released (os_released o ++ [c]) o, false, None).
Proof. exact os_own_release_deferred. Qed.
Print Assumptions C06_own_release_deferred.

Theorem C06_pcancel_ends_on_repress : forall o c,
  os_active o -> os_ignore_ticks o = 0 -> is_repress_cfg (os_end_config o) = true ->
  mem_coord c (os_keys o) = true ->
  fst (os_handle_press o (OSKey c)) =
    set_os_released (filter (fun c' => negb (coord_eqb c' c)) (os_released o)) (set_os_release_next true o) /\
  snd (os_handle_press o (OSKey c)) = os_keys o.
Proof. exact os_pcancel_repress. Qed.
Print Assumptions C06_pcancel_ends_on_repress.

(* it never lingers: once inactive, presses and releases are untouched by the one-shot machinery *)
Theorem C06_inactive_affects_nothing : forall o,
  os_keys o = [] ->
  (forall k, os_handle_press o k = (o, [])) /\ (forall c, os_handle_release o c = (o, true, None)) /\ os_tick o = (o, None).
Proof.
  exact (fun o H => conj (fun k => os_inactive_press o k H) (conj (fun c => os_inactive_release o c H) (os_tick_inactive o H))).
Qed.
Print Assumptions C06_inactive_affects_nothing.

(* one-shot keys tapped in a row combine and restart the timeout: the OneShot arm of do_action, for whatever the inner action
   does (`doact rec …` is the recursive call that performs it): the new key joins the active one-shot keys (room for 16), the
   timeout is the configured one again, the end condition is that of the new key; the plain keys pressed since the first one-shot
   (whose release ends the release variants) are not forgotten *)
From KV Require Import Proofs.C06Combine.
Theorem C06_oneshot_keys_combine_and_restart : forall cfg rec l inner timeout e c d os ls l2 cu,
  doact rec (lpt_update_coord c (before_action l c)) inner c d true [] = Ok (l2, cu) ->
  (length (os_keys (oneshot l2)) < ONE_SHOT_MAX_ACTIVE)%nat ->
  exists l', do_action_body cfg rec l (OneShot inner timeout e) c d os ls = Ok (l', cu) /\
             os_keys (oneshot l') = os_keys (oneshot l2) ++ [c] /\
             os_timeout (oneshot l') = timeout /\ os_end_config (oneshot l') = e /\ states l' = states l2 /\
             os_other (oneshot l') = os_other (oneshot l2).
Proof. exact oneshot_keys_combine_and_restart. Qed.
Print Assumptions C06_oneshot_keys_combine_and_restart.
