(* C07 — idle blocking is unobservable.  Pinned statements.  Proved: the keyberon half (a tick of a
   layout with nothing pending is a no-op apart from history ageing, for any number of ticks) and
   that the idle predicate implies the layout conjuncts.  The kanata-level half (no OS output from a
   blocked gap, identical handling of later input) and the real threaded loop are covered by the
   correspondence on the idle/can-block flags and by the paired-run oracle: partial. *)
From KV Require Import Kanata.Glue Proofs.C07Proofs.

Theorem C07_quiet_tick_is_noop : forall cfg l, quiet l -> layout_tick cfg l = Ok (aged l, CNone).
Proof. exact quiet_tick_is_noop. Qed.
Print Assumptions C07_quiet_tick_is_noop.

Theorem C07_quiet_ticks_are_noops : forall cfg (n : nat) l, quiet l ->
  forall k, (k < n)%nat -> layout_tick cfg (aged_n k l) = Ok (aged_n (S k) l, CNone).
Proof. exact quiet_ticks_are_noops. Qed.
Print Assumptions C07_quiet_ticks_are_noops.

Theorem C07_is_idle_layout_conjuncts : forall k,
  k_is_idle k = true ->
  queue (k_layout k) = [] /\ waiting_ (k_layout k) = None /\ extra_waiting (k_layout k) = [] /\
  lpt_timeout (k_layout k) = 0 /\ os_pause_ticks (oneshot (k_layout k)) = 0 /\
  active_sequences (k_layout k) = [] /\ tap_dance_eager (k_layout k) = None /\ action_queue (k_layout k) = [].
Proof. exact is_idle_layout_conjuncts. Qed.
Print Assumptions C07_is_idle_layout_conjuncts.

(* ... and the conjuncts that belong to kanata itself (each of them was removed or weakened by some seeded change): idle means no
   sequence mode, no one-shot key, no scroll / mouse movement, no cancel window, no replay, no caps-word, no virtual-key deadline,
   no key at the OS that the layout no longer produces, no macro custom action between its press and its release, chords v2 idle *)
Theorem C07_is_idle_kanata_conjuncts : forall k,
  k_is_idle k = true ->
  sq_active (k_seq k) = false /\ os_keys (oneshot (k_layout k)) = [] /\
  k_scroll k = None /\ k_hscroll k = None /\ k_mmv k = None /\ k_mmh k = None /\
  k_macro_cancel_dur k = 0 /\ k_replay k = None /\ k_caps_word k = None /\ k_vkeys_pending k = [] /\
  (forall pk, In pk (k_prev_keys k) -> mem_n pk (keycodes (k_layout k)) = true) /\
  (forall s, In s (states (k_layout k)) -> match s with SeqCustomPending _ | SeqCustomActive _ => False | _ => True end) /\
  (forall ch, chords2 (k_layout k) = Some ch -> chv2_is_idle ch = true).
Proof. exact is_idle_kanata_conjuncts. Qed.
Print Assumptions C07_is_idle_kanata_conjuncts.

(* ---- on the fragment of C04, at the kanata level (Proofs/C07Fragment.v) ----
   KSys: the instance is related to a keymap state (nothing waiting, no one-shot, no sequence, ...); with nothing pending,
   running n more milliseconds before the next input or skipping them gives the same OS events for every continuation *)
From KV Require Import Spec.Keymap Proofs.C04Refine Proofs.C04Kanata Proofs.C07Fragment.
Theorem C07_fragment_idle_ticks_unobservable : forall cfg k m n is,
  kfrag cfg -> KSys cfg k m -> km_pending m = [] -> k_prev_keys k = km_keys (held (km_st m)) ->
  hist_ok (kc_layout cfg) 0 is = true -> physical is = true ->
  exists outs, k_run cfg k is = Ok outs /\ k_run cfg k (repeat KmTick n ++ is) = Ok (repeat [] n ++ outs).
Proof. exact idle_ticks_unobservable. Qed.
Print Assumptions C07_fragment_idle_ticks_unobservable.

Theorem C07_fragment_idle_means_nothing_pending : forall cfg k m,
  KSys cfg k m -> k_is_idle k = true -> km_pending m = [].
Proof. exact idle_means_nothing_pending. Qed.
Print Assumptions C07_fragment_idle_means_nothing_pending.

(* ---- the whole action grammar, every configuration without defoverrides (Proofs/C07Kanata.v) ----
   IdleK: the conjuncts Kanata::is_idle reads (nothing queued / waiting / one-shot / sequence / macro / scroll / move / replay /
   caps-word / pending virtual key; a chords-v2 machine, if any, with nothing queued and nothing active) in the form reachable after a millisecond in which nothing happened: the OS key
   list is up to date and no unmod / unshift key is held.  In such a state the model's is_idle holds, one millisecond emits nothing
   and leads to such a state again with the layout only aged (`idle_aged`: histories age, an idle chords-v2 machine moves its own
   countdowns; without chords v2 it is `aged`, C07_idle_aged_without_chords); so do n milliseconds.  What a sleeping loop skips can therefore
   reach the output only through the ages of the key history, which `can_block` guards with the largest key-timing threshold *)
From KV Require Import Proofs.C07Kanata.
Theorem C07_kanata_idle_tick_is_silent : forall cfg k,
  kc_overrides cfg = [] -> kc_seq_always_on cfg = false -> IdleK k ->
  exists k', k_tick cfg k = Ok (k', []) /\ IdleK k' /\ k_layout k' = idle_aged (k_layout k) /\ k_prev_keys k' = k_prev_keys k /\
             k_seq k' = k_seq k /\ k_ticks_since_idle k' = k_ticks_since_idle k /\ k_record k' = tick_record (k_record k).
Proof. exact idle_tick_is_silent. Qed.
Print Assumptions C07_kanata_idle_tick_is_silent.

Theorem C07_kanata_idle_ticks_are_silent : forall cfg, kc_overrides cfg = [] -> kc_seq_always_on cfg = false ->
  forall n k, IdleK k ->
  exists k', k_ticks cfg n k = Ok (k', []) /\ IdleK k' /\ k_layout k' = idle_aged_n n (k_layout k) /\ k_prev_keys k' = k_prev_keys k /\
             k_seq k' = k_seq k /\ k_ticks_since_idle k' = k_ticks_since_idle k.
Proof. exact idle_ticks_are_silent. Qed.
Print Assumptions C07_kanata_idle_ticks_are_silent.

Theorem C07_idle_state_is_idle : forall k, IdleK k -> k_live_reload_requested k = false -> k_is_idle k = true.
Proof. exact idlek_is_idle. Qed.
Print Assumptions C07_idle_state_is_idle.

Theorem C07_idle_aged_without_chords : forall l, chords2 l = None -> idle_aged l = aged l.
Proof. exact idle_aged_without_chords. Qed.
Print Assumptions C07_idle_aged_without_chords.
