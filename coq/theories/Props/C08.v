(* C08 — macros play exactly their key list, in order, and always end with keys released.
   Pinned statements about the model's sequence player. *)
From KV Require Import Keyberon.Layout Proofs.LayoutBasics Proofs.C08Proofs.

(* at least the stated delays: a delay of d is read in one tick and counted down in d-1 more *)
Theorem C08_delay_read : forall l s d t,
  ready s -> ss_remaining s = SDelay d :: t -> 0 < d ->
  seq_step l s = (l, set_ss_delay (d - 1) (set_ss_remaining t (set_ss_cur (Some (SDelay d)) s))).
Proof. exact step_reads_delay. Qed.
Print Assumptions C08_delay_read.

Theorem C08_delay_countdown : forall l s,
  0 < ss_delay s -> seq_step l s = (l, set_ss_delay (ss_delay s - 1) s).
Proof. exact step_delay_countdown. Qed.
Print Assumptions C08_delay_countdown.

(* a press step holds exactly that key; a release step lets it go *)
Theorem C08_press_step : forall l s k t,
  ready s -> ss_remaining s = SPress k :: t -> (length (states l) < STATES_CAP)%nat ->
  states (fst (seq_step l s)) = states l ++ [FakeKey k] /\ ss_remaining (snd (seq_step l s)) = t.
Proof. exact step_press. Qed.
Print Assumptions C08_press_step.

Theorem C08_release_step : forall l s k t,
  ready s -> ss_remaining s = SRelease k :: t ->
  fake_keys (fst (seq_step l s)) = filter (fun x => negb (x =? k)) (fake_keys l) /\
  ss_remaining (snd (seq_step l s)) = t.
Proof. exact step_release. Qed.
Print Assumptions C08_release_step.

(* no two steps of one macro in the same millisecond *)
Theorem C08_one_step_per_tick : forall l s,
  active_sequences l = [s] ->
  process_sequences l =
    (let '(l', s') := seq_step l s in
     match ss_remaining s' with
     | _ :: _ => set_active_sequences [s'] l'
     | [] =>
       match find (fun st => match st with RepeatingSequence _ _ => true | _ => false end)
                  (rev (states (set_active_sequences [] l'))) with
       | Some (RepeatingSequence evs _) => set_active_sequences [new_seq evs] (set_active_sequences [] l')
       | _ => set_active_sequences [] l'
       end
     end).
Proof. exact process_sequences_single. Qed.
Print Assumptions C08_one_step_per_tick.

(* cancellation releases every key a macro pressed *)
Theorem C08_cancel_action_clears : forall cfg rec l c d os ls,
  exists l', do_action_body cfg rec l CancelSequences c d os ls = Ok (l', CNone) /\
             active_sequences l' = [] /\ fake_keys l' = [].
Proof. exact cancel_sequences_clears. Qed.
Print Assumptions C08_cancel_action_clears.

Theorem C08_cancel_paths_clear : forall l,
  active_sequences (cancel_macros l) = [] /\ fake_keys (cancel_macros l) = [].
Proof. exact cancel_macros_clears. Qed.
Print Assumptions C08_cancel_paths_clear.

(* a repeating macro restarts only while its key is still held *)
Theorem C08_repeat_only_while_held : forall l,
  active_sequences l = [] ->
  (forall s, In s (states l) -> match s with RepeatingSequence _ _ => False | _ => True end) ->
  active_sequences (process_sequences l) = [].
Proof. exact repeat_only_while_held. Qed.
Print Assumptions C08_repeat_only_while_held.

(* a whole macro of press / release / tap / delay steps, from a ready state with room for its keys: the macro-held keys after
   every millisecond are exactly what it spells (`play`: one step per millisecond, a tap takes two, a delay of d takes max 1 d
   during which nothing changes), nothing is left to play, and what is held at the end is what the spelling leaves held *)
From KV Require Import Proofs.C08Play.
Theorem C08_macro_plays_exactly_its_list : forall evs l s,
  ready s -> ss_remaining s = evs -> Forall simple_ev evs ->
  (length (states l) + length evs <= STATES_CAP)%nat ->
  exists l' s', seq_run (length (play evs (fake_keys l))) l s = (play evs (fake_keys l), (l', s')) /\
                ss_remaining s' = [] /\ fake_keys l' = last (play evs (fake_keys l)) (fake_keys l).
Proof. exact macro_ends_as_spelled. Qed.
Print Assumptions C08_macro_plays_exactly_its_list.

(* "regardless of other keys typed meanwhile": the release sweep that a physical key release runs over the layout states
   (State::release, with or without the clear-on-next-release conjunct) removes no macro-held key, whatever the released
   position was bound to - also when it produced the same key code as a key the macro holds *)
Theorem C08_physical_release_keeps_macro_keys : forall c skip sts cu,
  filter_map (fun s => match s with FakeKey k => Some k | _ => None end) (fst (release_states c skip sts cu)) =
  filter_map (fun s => match s with FakeKey k => Some k | _ => None end) sts.
Proof. exact release_states_keeps_fake. Qed.
Print Assumptions C08_physical_release_keeps_macro_keys.
