(* C09 — input chords fire for exactly the pressed key set, in any press order.
   Pinned statements about the model of defchords (v1).  defchordsv2 is covered by the
   correspondence only (see DESIGN.md): partial. *)
From Coq Require Import Permutation.
From KV Require Import Keyberon.Layout Proofs.LayoutBasics Proofs.C09Proofs.

(* the pressed set is the bitwise or of the participants: any press order gives the same set *)
Theorem C09_order_independent : forall g q1 q2 m0,
  Permutation q1 q2 -> mask_of_presses g q1 m0 = mask_of_presses g q2 m0.
Proof. exact mask_of_presses_perm. Qed.
Print Assumptions C09_order_independent.

Theorem C09_active_set : forall g w q active handled rel,
  Forall (fun s => chord_press g w s = true) q ->
  chord_active_fold g w q active handled rel =
    (inl (mask_of_presses g q active), handled + N.of_nat (length q), rel).
Proof. exact chord_active_fold_presses. Qed.
Print Assumptions C09_active_set.

(* the chord for exactly the pressed set fires once no defined chord strictly contains that set ... *)
Theorem C09_exact_set_fires : forall g keys,
  no_strict_superset (cg_chords g) keys -> NoDup (map fst (cg_chords g)) ->
  cg_get_chord_if_unambiguous g keys = cg_get_chord g keys.
Proof. exact unambiguous_fires. Qed.
Print Assumptions C09_exact_set_fires.

(* ... and not before: a sub-chord does not fire while a larger defined chord is still possible *)
Theorem C09_subchord_waits : forall g keys ck a,
  In (ck, a) (cg_chords g) -> ck <> keys -> N.lor ck keys = ck ->
  cg_get_chord_if_unambiguous g keys = None.
Proof. exact ambiguous_waits. Qed.
Print Assumptions C09_subchord_waits.

(* the participants' own presses are consumed by the chord: none of their individual actions run *)
Theorem C09_participants_consumed : forall g w q pq,
  Forall (fun s => chord_press g w s = true) q ->
  (length pq + length q <= QUEUE_SIZE)%nat ->
  chord_retain g w q (N.of_nat (length q)) pq = ([], pq ++ map q_coord q).
Proof. exact chord_retain_drops_all. Qed.
Print Assumptions C09_participants_consumed.

(* chords v2 (keyberon/src/chord.rs, modelled in Keyberon/ChordsV2.v): whatever the queue holds, every chord that
   process_presses activates is one of the configured chords that is enabled on the active layer — a chord disabled
   there never fires, on any path (loop, backtracking after a foreign key, timeout/release block) *)
From KV Require Import Keyberon.ChordsV2 Proofs.C09V2Proofs.
Theorem C09_v2_disabled_chord_never_activated : forall c layer c' a,
  process_presses c layer = Ok c' -> In a (cv_active c') ->
  In a (cv_active c) \/
  exists ch since coord rf, In ch (cv_chords c) /\ enabled_on layer ch = true /\ a = get_active_chord ch since coord rf.
Proof. exact disabled_chord_never_activated. Qed.
Print Assumptions C09_v2_disabled_chord_never_activated.

(* chords v2 release rule (drain_releases / the ignore-window branch of drain_inputs) *)
From KV Require Import Proofs.C09V2Release Proofs.C09V2Exact Proofs.C09V2Fires.
Theorem C09_v2_nonparticipant_release_ignored : forall j a, mem_n j (ac_keys a) = false -> release_in_ach j a = a.
Proof. exact nonparticipant_release_ignored. Qed.
Print Assumptions C09_v2_nonparticipant_release_ignored.

Theorem C09_v2_bystander_releases_change_no_active_chord : forall q npress achs dq q' achs' dq',
  Forall (fun qd => q_press qd = false -> forallb (fun a => negb (mem_n (snd (q_coord qd)) (ac_keys a))) achs = true) q ->
  drain_releases q npress achs dq = Ok (q', achs', dq') -> achs' = achs.
Proof. exact drain_releases_bystanders. Qed.
Print Assumptions C09_v2_bystander_releases_change_no_active_chord.

Theorem C09_v2_first_release_by_participant : forall j a,
  ac_remaining a = [] -> mem_n j (ac_keys a) = true -> is_released (ac_status (release_in_ach j a)) = true.
Proof. exact first_release_by_participant. Qed.
Print Assumptions C09_v2_first_release_by_participant.

Theorem C09_v2_all_released_waits : forall j k a,
  In k (ac_remaining a) -> k <> j -> ac_status (release_in_ach j a) = ac_status a.
Proof. exact all_released_waits. Qed.
Print Assumptions C09_v2_all_released_waits.

Theorem C09_v2_all_released_by_last : forall j a,
  mem_n j (ac_keys a) = true -> (forall k, In k (ac_remaining a) -> k = j) ->
  is_released (ac_status (release_in_ach j a)) = true.
Proof. exact all_released_by_last. Qed.
Print Assumptions C09_v2_all_released_by_last.

(* releases reach the active chords also while chords are being ignored (chords-v2-min-idle window; repaired by 297ba3c) *)
Theorem C09_v2_ignore_window_release_reaches_chord : forall c dq layer a qd c' dq',
  0 <? cv_ignore c = true -> In a (cv_active c) -> In qd (cv_queue c) ->
  q_press qd = false -> fst (q_coord qd) = 0 -> mem_n (snd (q_coord qd)) (ac_keys a) = true -> ac_remaining a = [] ->
  drain_inputs c dq layer = Ok (c', dq') ->
  exists a', In a' (cv_active c') /\ ac_coord a' = ac_coord a /\ is_released (ac_status a') = true.
Proof. exact ignore_window_release_reaches_chord. Qed.
Print Assumptions C09_v2_ignore_window_release_reaches_chord.

(* defchordsv2, exactness in any press order: whatever process_presses adds to the active chords is a chord enabled on the
   active layer whose key set equals, as a set, the first n keys typed (some n); and the presses it takes out of the queue
   are those of such a prefix: no other key is swallowed *)
Theorem C09_v2_activation_is_exact_prefix : forall c layer presses rf c',
  scan_presses (cv_queue c) [] = Ok (presses, rf) ->
  process_presses c layer = Ok c' ->
  (forall a, In a (cv_active c') ->
     In a (cv_active c) \/
     exists ch since coord rf' n, In ch (cv_chords c) /\ enabled_on layer ch = true /\
       same_keys ch (firstn n presses) = true /\ a = get_active_chord ch since coord rf') /\
  (cv_queue c' = cv_queue c \/
   exists n, cv_queue c' = filter (fun qd => negb (q_press qd && mem_n (snd (q_coord qd)) (firstn n presses))) (cv_queue c)).
Proof. exact activation_is_exact_prefix. Qed.
Print Assumptions C09_v2_activation_is_exact_prefix.

Theorem C09_v2_same_keys_any_order : forall ch typed typed',
  Permutation typed typed' -> same_keys ch typed = same_keys ch typed'.
Proof. exact same_keys_any_order. Qed.
Print Assumptions C09_v2_same_keys_any_order.

(* defchordsv2, the other direction: the presses in the queue are exactly the keys of an enabled chord, typed in any order:
   process_presses does not fail and activates a chord with exactly that key set -- or changes no active chord, which
   happens only while no participant has been released and a timeout is still running (a longer chord can still come) *)
Theorem C09_v2_exact_set_fires_or_waits : forall c layer presses rf ch,
  scan_presses (cv_queue c) [] = Ok (presses, rf) ->
  presses <> [] -> NoDup presses ->
  In ch (cv_chords c) -> enabled_on layer ch = true -> same_keys ch presses = true ->
  (length (cv_active c) < 10)%nat ->
  exists c', process_presses c layer = Ok c' /\
    ((exists cch since coord rf',
        cv_active c' = cv_active c ++ [get_active_chord cch since coord rf'] /\
        In cch (cv_chords c) /\ enabled_on layer cch = true /\ same_keys cch presses = true)
     \/ (cv_active c' = cv_active c /\ rf = false /\ cv_until_change c' <> 0)).
Proof. exact exact_set_fires_or_waits. Qed.
Print Assumptions C09_v2_exact_set_fires_or_waits.

(* defchordsv2, keys that complete no chord are not swallowed: a first key that is in no chord activates nothing, takes nothing
   out of the queue and opens the ignore window; while that window is open every queued event is handed on to the layout in its
   original order and the queue is emptied *)
Theorem C09_v2_outside_key_starts_ignore_window : forall c layer start rest rf,
  scan_presses (cv_queue c) [] = Ok (start :: rest, rf) ->
  (forall ch, In ch (cv_chords c) -> mem_n start (c2_keys ch) = false) ->
  process_presses c layer = Ok (no_chord_activations c).
Proof. exact outside_key_starts_ignore_window. Qed.
Print Assumptions C09_v2_outside_key_starts_ignore_window.

Theorem C09_v2_ignore_window_forwards_in_order : forall c dq layer,
  0 <? cv_ignore c = true -> (length dq + length (cv_queue c) <= SMOL_Q_LEN)%nat ->
  exists c', drain_inputs c dq layer = Ok (c', dq ++ cv_queue c) /\ cv_queue c' = [] /\ cv_chords c' = cv_chords c.
Proof. exact ignore_window_forwards_in_order. Qed.
Print Assumptions C09_v2_ignore_window_forwards_in_order.

(* defchordsv2, a release reaches every active chord: when the queue walk meets the release of key j, every active chord stays the
   same chord at the same position of the list, waits for no more keys than before, and each chord that j belongs to no longer
   waits for j -- wherever in the list it is stored and however many chords are active *)
Theorem C09_v2_release_reaches_every_active_chord : forall q npress achs dq q' achs' dq' qd,
  drain_releases q npress achs dq = Ok (q', achs', dq') ->
  In qd q -> q_press qd = false ->
  Forall2 (no_longer_waits (snd (q_coord qd))) achs achs'.
Proof. exact release_reaches_every_active_chord. Qed.
Print Assumptions C09_v2_release_reaches_every_active_chord.

(* defchordsv2, the countdown that lets drain_inputs skip ticks: an activation clears it (the presses it was computed for are
   consumed), so later events are never compared against it (defect repaired by f65267c) *)
From KV Require Import Proofs.C09V2Countdown.
Theorem C09_v2_activation_clears_countdown : forall c layer c',
  process_presses c layer = Ok c' -> (length (cv_active c) < length (cv_active c'))%nat -> cv_until_change c' = 0.
Proof. exact activation_clears_countdown. Qed.
Print Assumptions C09_v2_activation_clears_countdown.

(* defchordsv2, "released per the configured release rule": a chord whose status has become Released leaves the active list in the
   same tick and its release event reaches the layout, in list order; no Released chord is ever left behind, no other chord is
   removed *)
Theorem C09_v2_released_chords_are_cleared : forall c layer c' dq',
  tick_chv2 c layer = Ok (c', dq') ->
  Forall (fun a => is_released a = false) (cv_active c') /\
  exists c1 dq, cv_active c' = filter (fun a => negb (is_released a)) (cv_active c1) /\
                dq' = dq ++ map release_event (filter is_released (cv_active c1)).
Proof. exact released_chords_are_cleared. Qed.
Print Assumptions C09_v2_released_chords_are_cleared.

Theorem C09_v2_last_release_marks_the_chord_released : forall j a,
  mem_n j (ac_keys a) = true -> (forall k, In k (ac_remaining a) -> k = j) ->
  ac_remaining (release_in_ach j a) = [] /\
  ac_status (release_in_ach j a) = match ac_status a with AUnread | AUnreadReleased => AUnreadReleased | _ => AReleased end.
Proof. exact last_release_marks_the_chord_released. Qed.
Print Assumptions C09_v2_last_release_marks_the_chord_released.

(* defchordsv2, "that chord's action is performed once": reading hands out the action of the first unread chord and marks it read;
   a chord that has been read is never handed out again; nothing else in the list changes *)
Theorem C09_v2_action_is_read_once : forall l,
  (forallb (fun a => negb (unread a)) l = true /\ get_action_go l = (l, None)) \/
  (exists pre a post, l = pre ++ a :: post /\ forallb (fun a => negb (unread a)) pre = true /\ unread a = true /\
     get_action_go l = (pre ++ mark_read a :: post, Some ((0, ac_coord a), ac_delay a, ac_action a)) /\ unread (mark_read a) = false).
Proof. exact action_is_read_once. Qed.
Print Assumptions C09_v2_action_is_read_once.
