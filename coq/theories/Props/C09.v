(* C09 — input chords fire for exactly the pressed key set, in any press order.
   Pinned statements about the model of defchords (v1).  defchordsv2 is covered by the
   correspondence only (see DESIGN.md): partial. *)
From Coq Require Import Permutation.
From KV Require Import Keyberon.Layout Proofs.LayoutBasics Proofs.C09Proofs.

(* the pressed set is the bitwise or of the participants: any press order gives the same set *)
Theorem C09_order_independent : forall g q1 q2 m0,
  Permutation q1 q2 -> mask_of_presses g q1 m0 = mask_of_presses g q2 m0.
Proof. exact mask_of_presses_perm. Qed.
Print Assumptions C09_order_independent.

Theorem C09_active_set : forall g w q active handled rel,
  Forall (fun s => chord_press g w s = true) q ->
  chord_active_fold g w q active handled rel =
    (inl (mask_of_presses g q active), handled + N.of_nat (length q), rel).
Proof. exact chord_active_fold_presses. Qed.
Print Assumptions C09_active_set.

(* the chord for exactly the pressed set fires once no defined chord strictly contains that set ... *)
Theorem C09_exact_set_fires : forall g keys,
  no_strict_superset (cg_chords g) keys -> NoDup (map fst (cg_chords g)) ->
  cg_get_chord_if_unambiguous g keys = cg_get_chord g keys.
Proof. exact unambiguous_fires. Qed.
Print Assumptions C09_exact_set_fires.

(* ... and not before: a sub-chord does not fire while a larger defined chord is still possible *)
Theorem C09_subchord_waits : forall g keys ck a,
  In (ck, a) (cg_chords g) -> ck <> keys -> N.lor ck keys = ck ->
  cg_get_chord_if_unambiguous g keys = None.
Proof. exact ambiguous_waits. Qed.
Print Assumptions C09_subchord_waits.

(* the participants' own presses are consumed by the chord: none of their individual actions run *)
Theorem C09_participants_consumed : forall g w q pq,
  Forall (fun s => chord_press g w s = true) q ->
  (length pq + length q <= QUEUE_SIZE)%nat ->
  chord_retain g w q (N.of_nat (length q)) pq = ([], pq ++ map q_coord q).
Proof. exact chord_retain_drops_all. Qed.
Print Assumptions C09_participants_consumed.

(* chords v2 (keyberon/src/chord.rs, modelled in Keyberon/ChordsV2.v): whatever the queue holds, every chord that
   process_presses activates is one of the configured chords that is enabled on the active layer — a chord disabled
   there never fires, on any path (loop, backtracking after a foreign key, timeout/release block) *)
From KV Require Import Keyberon.ChordsV2 Proofs.C09V2Proofs.
Theorem C09_v2_disabled_chord_never_activated : forall c layer c' a,
  process_presses c layer = Ok c' -> In a (cv_active c') ->
  In a (cv_active c) \/
  exists ch since coord rf, In ch (cv_chords c) /\ enabled_on layer ch = true /\ a = get_active_chord ch since coord rf.
Proof. exact disabled_chord_never_activated. Qed.
Print Assumptions C09_v2_disabled_chord_never_activated.
