(* C10 — switch and fork conditions evaluate exactly as written.  Pinned statements. *)
From Coq Require Import Lia.
From KV Require Import Spec.BoolSpec Proofs.C10Decode Proofs.C10Eval Keyberon.Layout.

(* the flagship: for every list of well-formed condition items (every operator >= 1 operand), of
   any size up to the opcode limit and any nesting depth the parser accepts, and every environment,
   the stack-machine evaluator run on the compiled opcodes returns the denotation of what was written *)
Theorem C10_eval_correct : forall env es,
  Forall wf es -> (sizes es <= 4095)%nat -> (depths es <= MAX_BOOL_EXPR_DEPTH)%nat ->
  evaluate_boolean (compiles 0 es) env = Ok (denote_top env es).
Proof. exact (fun env es H => eval_correct (compiles 0 es) env es H eq_refl). Qed.
Print Assumptions C10_eval_correct.

(* cases are tried top to bottom; break stops, fallthrough continues; every firing case's action is yielded *)
Theorem C10_cases : forall env cs, Forall wf_case cs ->
  switch_actions (map compile_case cs) env = Ok (cases_spec env cs).
Proof. exact cases_correct. Qed.
Print Assumptions C10_cases.

(* each opcode constructor decodes to itself *)
Theorem C10_decode_leaf_one_word : forall lf v next,
  wf_leaf lf -> enc_leaf lf = [v] -> opcode_type v next = Ok (ot_of_leaf lf).
Proof. exact decode_leaf1. Qed.
Print Assumptions C10_decode_leaf_one_word.

Theorem C10_decode_leaf_two_words : forall lf v w,
  wf_leaf lf -> enc_leaf lf = [v; w] -> opcode_type v (Some w) = Ok (ot_of_leaf lf).
Proof. exact decode_leaf2. Qed.
Print Assumptions C10_decode_leaf_two_words.

Theorem C10_decode_bool : forall o (e : nat) next,
  (e <= 4095)%nat -> opcode_type (enc_bool o e) next = Ok (OTBool o (N.of_nat e)).
Proof. exact decode_bool. Qed.
Print Assumptions C10_decode_bool.

(* key-timing thresholds: the compared value is the written one rounded down, exact up to 255,
   within 8 up to 2303 and within 128 above; rounding is monotone *)
Theorem C10_compress_bounds : forall t, t < 65536 ->
  timing_threshold t <= t /\
  (t <= 255 -> timing_threshold t = t) /\
  (t <= 2303 -> t - timing_threshold t < 8) /\
  t - timing_threshold t < 128.
Proof. exact compress_bounds. Qed.
Print Assumptions C10_compress_bounds.

Theorem C10_compress_monotone : forall t, t < 65535 -> timing_threshold t <= timing_threshold (t + 1).
Proof. exact compress_monotone_step. Qed.
Print Assumptions C10_compress_monotone.

(* non-vacuity: a nested condition that the unrepaired evaluator got wrong *)
Example C10_nonvacuous :
  let env := {| e_keys := []; e_coords := []; e_hkeys := []; e_hinputs := []; e_layers := [0]; e_default := 0 |} in
  let es := [BOp BNot [BOp BAnd [BLeaf (LKey 30); BLeaf (LKey 48)]]; BLeaf (LKey 46)] in
  Forall wf es /\ evaluate_boolean (compiles 0 es) env = Ok true /\ denote_top env es = true.
Proof.
  cbv zeta. split; [|split; vm_compute; reflexivity].
  repeat (constructor; try discriminate; try (cbn; unfold KEY_MAX_KB; lia)).
Qed.

(* the input history that the `input-history` leaves read: a press is recorded the moment it is handed to the layout, to the
   layout's own queue or - with defchordsv2 configured - to the chord queue first; a release records nothing *)
From KV Require Import Keyberon.Layout Proofs.C10History.
Theorem C10_press_is_recorded_in_input_history : forall cfg l c,
  (entry_queue_len l < QUEUE_SIZE)%nat ->
  exists l', layout_event2 cfg l true c = Ok l' /\ hist_inputs l' = hist_push_front c (hist_inputs l) /\
             hist_keys l' = hist_keys l.
Proof. exact press_is_recorded_in_input_history. Qed.
Print Assumptions C10_press_is_recorded_in_input_history.

Theorem C10_release_leaves_input_history : forall cfg l c,
  (entry_queue_len l < QUEUE_SIZE)%nat ->
  exists l', layout_event2 cfg l false c = Ok l' /\ hist_inputs l' = hist_inputs l.
Proof. exact release_leaves_input_history. Qed.
Print Assumptions C10_release_leaves_input_history.

(* what the key-history and key-timing leaves read: every key that do_action puts down is entered in the key history, whoever asked
   for it - a physical key or the inner action of a one-shot (is_oneshot = true), with or without a one-shot active *)
From KV Require Import Keyberon.Layout Proofs.C10KeyHistory.
Theorem C10_every_key_pressed_enters_the_key_history : forall cfg rec l k c d os ls l' cu,
  do_action_body cfg rec l (KeyCode k) c d os ls = Ok (l', cu) ->
  hist_keys l' = hist_push_front k (hist_keys l).
Proof. exact every_key_pressed_enters_the_key_history. Qed.
Print Assumptions C10_every_key_pressed_enters_the_key_history.
