(* C11 — key identity.  Pinned statements only. *)
From Coq Require Import List NArith String.
From KV Require Import Gen.KeyTables Keys.KeyModel Proofs.C11Proofs.
Import ListNotations.
Open Scope N_scope.

(* internal and OS code spaces coincide value for value (soundness of the two transmutes) *)
Theorem C11_discr_equal :
  keycode_repr_u16 = true /\ oscode_repr_u16 = true /\
  forall d, In d (map snd keycode_discr) <-> In d (map snd oscode_discr).
Proof. exact discr_sets_equal. Qed.
Print Assumptions C11_discr_equal.

Theorem C11_conversion_preserves_code :
  (forall v d, In (v, d) oscode_discr -> exists k, osc_to_kc v = Some k /\ kc_as_u16 k = Some d) /\
  (forall v d, In (v, d) keycode_discr -> exists o, kc_to_osc v = Some o /\ os_as_u16 o = Some d).
Proof. exact conv_preserves_code. Qed.
Print Assumptions C11_conversion_preserves_code.

(* for every code kanata knows: from_u16 then as_u16 is the identity, and conversely *)
Theorem C11_roundtrip_from_as : forall c v, os_from_u16 c = Some v -> os_as_u16 v = Some c.
Proof. exact roundtrip_from_as. Qed.
Print Assumptions C11_roundtrip_from_as.

Theorem C11_roundtrip_as_from : forall c v, In (c, v) from_u16_linux_tbl ->
  exists d, os_as_u16 v = Some d /\ os_from_u16 d = Some v.
Proof. exact roundtrip_as_from. Qed.
Print Assumptions C11_roundtrip_as_from.

(* a key name denotes the same code wherever it is listed *)
Theorem C11_names_functional : forall n v, In (n, v) (default_key_names ++ match_key_names) ->
  str_to_oscode n = Some v /\ exists d, os_as_u16 v = Some d.
Proof. exact names_functional. Qed.
Print Assumptions C11_names_functional.

Theorem C11_names_only_listed : forall n v, str_to_oscode n = Some v ->
  In (n, v) (default_key_names ++ match_key_names).
Proof. exact names_only_listed. Qed.
Print Assumptions C11_names_only_listed.

(* reserved no-op codes are never sent *)
Theorem C11_ignore_range : forall c, KEY_IGNORE_MIN <= c <= KEY_IGNORE_MAX -> out_filter c = [].
Proof. exact ignore_range. Qed.
Print Assumptions C11_ignore_range.

Theorem C11_outside_ignore_range : forall c, ~ (KEY_IGNORE_MIN <= c <= KEY_IGNORE_MAX) -> out_filter c = [c].
Proof. exact outside_ignore_range. Qed.
Print Assumptions C11_outside_ignore_range.

(* non-vacuity: the tables are non-trivial and the nop names land in the ignore range *)
Example C11_nonvacuous :
  os_from_u16 30 = Some "KEY_A"%string /\ str_to_oscode "a" = Some "KEY_A"%string /\
  osc_to_kc "KEY_A" = Some "A"%string /\ out_filter 676 = [] /\ out_filter 30 = [30].
Proof. vm_compute. repeat split; reflexivity. Qed.

(* mouse buttons (tables regenerated from output_logic.rs `osc_to_btn` and keys/linux.rs `From<Btn> for OsCode`): a code that
   kanata reads as a button is written to the OS, on Linux, as that same code *)
From KV Require Import Gen.Consts Kanata.Glue Proofs.ConstsAgree.
Theorem C11_mouse_button_codes_round_trip : forall code b,
  btn_of_code code = Some b -> In (b, code) src_btn_to_osc.
Proof. exact every_button_code_comes_out_as_itself. Qed.
Print Assumptions C11_mouse_button_codes_round_trip.
