(* C12 — sequences: accepted sets are unambiguous; a typed sequence fires its key once.
   Pinned statements: the parser's acceptance condition and its consequences for the lookups the
   runtime performs.  The full runtime state machine (do_sequence_press_logic with backtracking) is
   modelled and tied by correspondence; its end-to-end theorem is not proved: partial. *)
From KV Require Import Parser.SeqTable Proofs.C12Proofs.

Theorem C12_accepted_tables_prefix_free : forall defs t t',
  prefix_free t -> parse_sequences defs t = inr t' -> prefix_free t'.
Proof. exact accepted_tables_prefix_free. Qed.
Print Assumptions C12_accepted_tables_prefix_free.

Theorem C12_proper_prefix_never_matches : forall t k v p r,
  prefix_free t -> In (k, v) t -> k = p ++ r -> r <> [] -> get_or_descendant_exists t p = InTrie.
Proof. exact proper_prefix_never_matches. Qed.
Print Assumptions C12_proper_prefix_never_matches.

Theorem C12_completed_sequence_matches : forall t k v,
  prefix_free t -> In (k, v) t -> get_or_descendant_exists t k = HasValue v.
Proof. exact completed_sequence_matches. Qed.
Print Assumptions C12_completed_sequence_matches.

Theorem C12_dead_end_detected : forall t p,
  (forall e, In e t -> is_prefix p (fst e) = false) -> get_or_descendant_exists t p = NotInTrie.
Proof. exact dead_end_detected. Qed.
Print Assumptions C12_dead_end_detected.

Theorem C12_cancel_ends_sequence : forall s,
  sq_active (fst (cancel_sequence s)) = false /\ (sq_mode s <> 1 -> snd (cancel_sequence s) = []).
Proof. exact cancel_ends_sequence. Qed.
Print Assumptions C12_cancel_ends_sequence.

Theorem C12_backspaces_one_per_key : forall lo hi ks,
  Forall (fun k => k <> KEY_OVERLAP_MARKER /\ is_modifier_seq (N.land k MASK_KEYCODES) = false /\
                   ((lo <=? N.land k MASK_KEYCODES) && (N.land k MASK_KEYCODES <=? hi)) = false) ks ->
  fst (seq_backspaces lo hi ks 0) = flat_map (fun _ => [SORawPress 14; SORawRelease 14]) ks.
Proof. exact backspaces_one_per_key. Qed.
Print Assumptions C12_backspaces_one_per_key.

(* a whole typed sequence through the press logic (`type_keys`: the keys one after the other, no modifier held, stopping at the
   first reported match): in a prefix-free table of plain-key sequences, typing a defined sequence reports nothing before its
   last key and then exactly its own virtual key, once, with nothing left to type *)
From KV Require Import Proofs.C12Typing.
Theorem C12_plain_sequence_fires_once : forall t mc ks v mode timeout,
  prefix_free t -> plain_trie t -> In (ks, v) t -> ks <> [] -> Forall plain_key ks ->
  exists s', type_keys t mc (sq_activate mode timeout) ks = Ok (s', Some (v, ks, [])) /\ sq_seq s' = ks.
Proof. exact plain_sequence_fires_once. Qed.
Print Assumptions C12_plain_sequence_fires_once.

(* the modifier-cancelling retry reaches the first tracked key: a sequence that is, or begins with, a modifier written as a plain
   key is recognised although the pressed modifier carries its own modifier bit *)
Theorem C12_backtrack_reaches_first_key : forall t mc v,
  v <> KEY_OVERLAP_MARKER ->
  backtrack t mc [v] 1 =
    (let s := [if mc then N.land v MASK_KEYCODES else N.land v 64511] in
     let r := get_or_descendant_exists t s in
     if res_is_not r then (s, NotInTrie, true) else (s, r, false)).
Proof. exact backtrack_reaches_first_key. Qed.
Print Assumptions C12_backtrack_reaches_first_key.
