(* C13 — global overrides substitute exactly the configured combination, then let go.
   Pinned statements about the model of Overrides::override_keys, for arbitrary tables and key lists. *)
From KV Require Import Kanata.Overrides Proofs.C13Proofs.

Theorem C13_longest_match_wins : forall ovds mask o,
  ov_pick ovds mask 0 None = Some o ->
  In o ovds /\ ov_matches mask o = true /\
  forall o', In o' ovds -> ov_matches mask o' = true -> (ov_size o' <= ov_size o)%nat.
Proof. exact longest_match_wins. Qed.
Print Assumptions C13_longest_match_wins.

Theorem C13_no_match_no_override : forall ovds mask,
  ov_pick ovds mask 0 None = None -> forall o', In o' ovds -> ov_matches mask o' = false.
Proof. exact no_match_no_override. Qed.
Print Assumptions C13_no_match_no_override.

Theorem C13_substitution : forall ovs active mask add rem o,
  ov_pick (filter (fun o => ov_in_nm o =? active) ovs) mask 0 None = Some o ->
  ov_update_keys ovs active mask add rem =
    (push_new (ov_out_nm o) (fold_left (fun a k => push_new k a) (ov_out_mods o) add),
     push_new (ov_in_nm o) (fold_left (fun a k => push_new k a) (ov_in_mods o) rem)).
Proof. exact ov_update_keys_picked. Qed.
Print Assumptions C13_substitution.

Theorem C13_outside_keys_unaffected : forall ovs kcs out rem,
  override_keys ovs kcs = (out, rem) ->
  exists add, out = filter (fun k => negb (mem_n k rem)) kcs ++ add.
Proof. exact outside_keys_unaffected. Qed.
Print Assumptions C13_outside_keys_unaffected.

Theorem C13_restore : forall ovs kcs,
  (forall k m, In k kcs -> mask_for_key k = None -> ov_update_keys ovs k m [] [] = ([], [])) ->
  fst (override_keys ovs kcs) = kcs.
Proof. exact restore_when_no_combination. Qed.
Print Assumptions C13_restore.

(* every key of the list is looked up: a non-modifier key whose combination is present among the modifiers listed before it is
   substituted wherever it stands in the list and whatever other keys were substituted before it (two overridden keys held at once
   are both replaced) *)
Theorem C13_every_matching_key_is_substituted : forall ovs pre k post o,
  mask_for_key k = None ->
  ov_pick (filter (fun o' => ov_in_nm o' =? k) ovs) (mods_of pre 0) 0 None = Some o ->
  In (ov_out_nm o) (fst (ov_scan ovs (pre ++ k :: post) 0 [] [])) /\
  In (ov_in_nm o) (snd (ov_scan ovs (pre ++ k :: post) 0 [] [])).
Proof. exact every_matching_key_is_substituted. Qed.
Print Assumptions C13_every_matching_key_is_substituted.
