(* C14 — OS key-repeat is forwarded for, and only for, keys kanata is holding down.
   Pinned statements about the model of key_repeat.rs.  The completeness of the key-outputs table
   (parser side) is covered by the correspondence and by the table check in checks/c14.py: partial. *)
From KV Require Import Kanata.Glue Proofs.C14Proofs.

Theorem C14_at_most_one_and_only_held : forall cfg k code evs,
  handle_repeat cfg k code = Ok evs ->
  evs = [] \/ exists kc, evs = [KRepeat kc] /\ repeatable cfg k kc.
Proof. exact repeat_at_most_one_and_held. Qed.
Print Assumptions C14_at_most_one_and_only_held.

Theorem C14_unmodded_modifier_never_repeated : forall cfg k kc,
  k_unmodded_keys k <> [] -> k_unshifted_keys k = [] -> kc_overrides cfg = [] ->
  mem_n kc (unmod_mod_keys (k_unmodded_mods k)) = true -> ~ In kc (k_unmodded_keys k) ->
  ~ In kc (repeat_cur cfg k).
Proof. exact unmodded_mod_not_in_repeat_cur. Qed.
Print Assumptions C14_unmodded_modifier_never_repeated.

Theorem C14_prefers_last_listed : forall k cur outs a b,
  In a cur -> In b cur -> outs = [a; b] -> first_repeatable k cur outs = Some b.
Proof. exact prefers_last_listed. Qed.
Print Assumptions C14_prefers_last_listed.

(* sequence input modes: 2 = visible-backspaced; in the hidden modes the typed keys are kept from the OS, so nothing
   is repeated while the sequence is active *)
Theorem C14_hidden_sequence_suppresses_repeat : forall cfg k code,
  sq_active (k_seq k) = true -> sq_mode (k_seq k) <> 2 -> handle_repeat cfg k code = Ok [].
Proof. exact hidden_sequence_suppresses_repeat. Qed.
Print Assumptions C14_hidden_sequence_suppresses_repeat.

(* completeness at the handler (the key-outputs table itself is built by the parser and is checked by the oracle of the check,
   not here): if, for the repeated position, the table of a layer in the search order or of the default layer lists a key that is
   held at the output, a repeat is written, and for a held key *)
Theorem C14_repeat_forwarded_when_listed : forall cfg k code evs ls ly outs kc,
  handle_repeat cfg k code = Ok evs ->
  sq_active (k_seq k) && negb (sq_mode (k_seq k) =? 2) = false ->
  trans_order (kc_layout cfg) (k_layout k) = Ok ls ->
  In ly ls \/ ly = default_layer (k_layout k) ->
  outputs_for cfg ly code = Some outs -> In kc outs -> repeatable cfg k kc ->
  exists kc', evs = write_repeat cfg kc' /\ repeatable cfg k kc'.
Proof. exact repeat_forwarded_when_listed. Qed.
Print Assumptions C14_repeat_forwarded_when_listed.

Theorem C14_repeat_of_unmapped_held_key : forall cfg k code evs,
  handle_repeat cfg k code = Ok evs ->
  sq_active (k_seq k) && negb (sq_mode (k_seq k) =? 2) = false ->
  repeatable cfg k code -> exists kc', evs = write_repeat cfg kc' /\ repeatable cfg k kc'.
Proof. exact repeat_of_unmapped_held_key. Qed.
Print Assumptions C14_repeat_of_unmapped_held_key.
