(* C15 — pinned statements.  Nothing but Theorem / exact / Print Assumptions.
   Scope: the reload model (Kanata/Reload.v) over the kanata state model.  Parsing is the real parser; what a file
   parses to, that the running instance then behaves as a fresh one, and the notifications are decided on the real
   Kanata through handle_time_ticks by the paired-run oracles of checks/c15.py. *)
From KV Require Import Kanata.Reload Proofs.C15Proofs.

Theorem C15_failed_reload_changes_nothing : forall k, do_reload None k = (k, []).
Proof. exact failed_reload_changes_nothing. Qed.
Print Assumptions C15_failed_reload_changes_nothing.

Theorem C15_reload_deferred_while_keys_down : forall parsed k,
  (k_live_reload_requested k = false \/ (k_prev_keys k <> [] /\ (k_ticks_since_idle k <= 1000)%N)) ->
  after_tick parsed k = (k, []).
Proof. exact reload_deferred. Qed.
Print Assumptions C15_reload_deferred_while_keys_down.

Theorem C15_reload_runs_when_due : forall parsed k,
  k_live_reload_requested k = true -> (k_prev_keys k = [] \/ (1000 < k_ticks_since_idle k)%N) ->
  after_tick parsed k = do_reload parsed (set_k_live_reload_requested false k).
Proof. exact reload_runs. Qed.
Print Assumptions C15_reload_runs_when_due.

Theorem C15_successful_reload_is_restart : forall pause k,
  fst (do_reload (Some pause) k) = set_k_ticks_since_idle (k_ticks_since_idle k) (k_init (init_layout pause)) /\
  snd (do_reload (Some pause) k) = map KUp (k_prev_keys k) /\
  k_prev_keys (fst (do_reload (Some pause) k)) = [] /\
  k_live_reload_requested (fst (do_reload (Some pause) k)) = false.
Proof. exact successful_reload_is_restart. Qed.
Print Assumptions C15_successful_reload_is_restart.

Theorem C15_reload_twice_is_once : forall pause k,
  do_reload (Some pause) (fst (do_reload (Some pause) k)) = (fst (do_reload (Some pause) k), []).
Proof. exact reload_twice. Qed.
Print Assumptions C15_reload_twice_is_once.

Theorem C15_file_index_stays_in_range : forall a i n, (0 < n)%N -> (i < n)%N -> (next_index a i n < n)%N.
Proof. exact next_index_in_range. Qed.
Print Assumptions C15_file_index_stays_in_range.

Theorem C15_next_and_prev_are_inverse : forall i n, (0 < n)%N -> (i < n)%N ->
  next_index RlPrev (next_index RlNext i n) n = i /\ next_index RlNext (next_index RlPrev i n) n = i.
Proof. exact next_prev_inverse. Qed.
Print Assumptions C15_next_and_prev_are_inverse.
