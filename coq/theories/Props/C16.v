(* C16 — pinned statements.  Nothing but Theorem / exact / Print Assumptions.
   Scope: the substitution mechanisms the neutral rewrites rely on — variable resolution (sexpr.rs) and template
   expansion (deftemplate.rs) as modelled in Parser/Sexpr.v and Parser/Template.v.  That a rewritten
   configuration as a whole behaves like the original is decided on the real parser and state machine by the
   metamorphic oracle of checks/c16.py, not by a theorem. *)
From KV Require Import Parser.Sexpr Parser.Template Proofs.C03Proofs Proofs.C16Proofs.

(* a use of $v resolves to exactly what the value X written in its place resolves to (as a string and as a list),
   on every accepted variable table *)
Theorem C16_variable_use_is_its_value : forall defs vs v X sp,
  insert_vars [] defs = Ok (inr vs) -> lookup v vs = Some X ->
  (exists r, atom_res (S (length vs)) vs (Atom (36 :: v) sp) = Ok r /\ atom_res (S (length vs)) vs X = Ok r) /\
  (exists r, list_res (S (length vs)) vs (Atom (36 :: v) sp) = Ok r /\ list_res (S (length vs)) vs X = Ok r).
Proof. exact var_transparent. Qed.
Print Assumptions C16_variable_use_is_its_value.

(* a call (template-expand name a1..an) / (t! name a1..an) is replaced by the template's content with each
   parameter replaced by its argument, when that content has no concat and no conditional left to evaluate *)
Theorem C16_call_is_substituted_content : forall f ts l name t,
  nth_error l 1 = Some name -> atom_text name = Some (t_name t) -> find_template ts (t_name t) = Some t ->
  (length l - 2 = length (t_vars t))%nat ->
  Forall plain (map (subst (t_vars t) (skipn 2 l)) (t_content t)) ->
  expand_call (S f) ts l = Ok (inr (map (subst (t_vars t) (skipn 2 l)) (t_content t))).
Proof. exact call_is_substituted_content. Qed.
Print Assumptions C16_call_is_substituted_content.

(* a parameterless template used at a place gives, for every surrounding text without further calls, exactly the
   vector obtained by writing its content at that place — in either spelling; and that vector is a fixpoint *)
Theorem C16_template_use_is_inlining : forall ts t hd sp sp1 sp2 pre post f,
  find_template ts (t_name t) = Some t -> t_vars t = [] ->
  (hd = A_expand \/ hd = A_expand_short) ->
  Forall plain (t_content t) -> Forall quiet (t_content t) -> Forall quiet pre -> Forall quiet post ->
  (depths (pre ++ t_content t ++ post) <= f)%nat ->
  expand (S (S f)) ts (pre ++ [SList [Atom hd sp1; Atom (t_name t) sp2] sp] ++ post)
  = expand (S f) ts (pre ++ t_content t ++ post)
  /\ expand (S f) ts (pre ++ t_content t ++ post) = Ok (inr (pre ++ t_content t ++ post)).
Proof. exact template_inline. Qed.
Print Assumptions C16_template_use_is_inlining.

(* the same with parameters: a call with arguments = the content with each parameter replaced, written at that place *)
Theorem C16_template_call_is_inlining : forall ts t hd sp sp1 sp2 args pre post f,
  find_template ts (t_name t) = Some t -> length args = length (t_vars t) ->
  (hd = A_expand \/ hd = A_expand_short) ->
  let body := map (subst (t_vars t) args) (t_content t) in
  Forall plain body -> Forall quiet body -> Forall quiet pre -> Forall quiet post ->
  (depths (pre ++ body ++ post) <= f)%nat ->
  expand (S (S f)) ts (pre ++ [SList (Atom hd sp1 :: Atom (t_name t) sp2 :: args) sp] ++ post)
  = expand (S f) ts (pre ++ body ++ post)
  /\ expand (S f) ts (pre ++ body ++ post) = Ok (inr (pre ++ body ++ post)).
Proof. exact template_call_is_inlining. Qed.
Print Assumptions C16_template_call_is_inlining.

(* the conditional forms (evaluate_conditionals): a conditional whose test holds is replaced by exactly its content, one whose
   test fails by nothing; in a vector the result is spliced between untouched neighbours *)
From KV Require Import Proofs.C16Cond.
Theorem C16_if_equal_is_its_content_or_nothing : forall a b sh sa sb content sp,
  ec_expr (SList (Atom A_if_equal sh :: Atom a sa :: Atom b sb :: content) sp) =
    inr (if bytes_eqb a b then content else [], true).
Proof. exact if_equal_replacement. Qed.
Print Assumptions C16_if_equal_is_its_content_or_nothing.

Theorem C16_if_not_equal_is_its_content_or_nothing : forall a b sh sa sb content sp,
  ec_expr (SList (Atom A_if_not_equal sh :: Atom a sa :: Atom b sb :: content) sp) =
    inr (if bytes_eqb a b then [] else content, true).
Proof. exact if_not_equal_replacement. Qed.
Print Assumptions C16_if_not_equal_is_its_content_or_nothing.

Theorem C16_if_in_list_is_its_content_or_nothing : forall a sh sa lst sl content sp,
  ec_expr (SList (Atom A_if_in_list sh :: Atom a sa :: SList lst sl :: content) sp) =
    inr (if atoms_contain a lst then content else [], true).
Proof. exact if_in_list_replacement. Qed.
Print Assumptions C16_if_in_list_is_its_content_or_nothing.

Theorem C16_if_not_in_list_is_its_content_or_nothing : forall a sh sa lst sl content sp,
  ec_expr (SList (Atom A_if_not_in_list sh :: Atom a sa :: SList lst sl :: content) sp) =
    inr (if atoms_contain a lst then [] else content, true).
Proof. exact if_not_in_list_replacement. Qed.
Print Assumptions C16_if_not_in_list_is_its_content_or_nothing.

Theorem C16_conditional_is_spliced_in_place : forall pre post a b sh sa sb content sp,
  Forall (fun e => exists t s, e = Atom t s) pre -> Forall (fun e => exists t s, e = Atom t s) post ->
  eval_conds (pre ++ SList (Atom A_if_equal sh :: Atom a sa :: Atom b sb :: content) sp :: post) =
    inr (pre ++ (if bytes_eqb a b then content else []) ++ post, true).
Proof. exact if_equal_spliced. Qed.
Print Assumptions C16_conditional_is_spliced_in_place.
