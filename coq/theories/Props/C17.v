(* C17 — tap-dance performs exactly the action for the number of taps.  Pinned statements. *)
From KV Require Import Keyberon.Layout Proofs.LayoutBasics Proofs.C17Proofs.

(* the tap count is 1 + the presses of the dance key queued before the first press of another key *)
Theorem C17_count_uninterrupted : forall c acc q,
  Forall (fun x => other_press c x = false) q -> td_count c acc q = inl (acc + count_own c q).
Proof. exact td_count_no_other. Qed.
Print Assumptions C17_count_uninterrupted.

Theorem C17_count_interrupted : forall c acc pre x post,
  Forall (fun y => other_press c y = false) pre -> other_press c x = true ->
  td_count c acc (pre ++ x :: post) = inr (acc + count_own c pre).
Proof. exact td_count_interrupted. Qed.
Print Assumptions C17_count_interrupted.

(* the count ends when the timeout passes, another key is pressed, or the list is exhausted *)
Theorem C17_ends_on_timeout : forall w nt max q,
  (qlen q =? w_prev_queue_len w) && (0 <? w_timeout w) = false -> w_timeout w = 0 ->
  handle_tap_dance w nt max q = (Some WATap, nt, td_evict (w_coord w) (sat_sub nt 1) q).
Proof. exact td_timeout. Qed.
Print Assumptions C17_ends_on_timeout.

Theorem C17_ends_on_other_key : forall w nt max q n,
  (qlen q =? w_prev_queue_len w) && (0 <? w_timeout w) = false -> w_timeout w <> 0 ->
  td_count (w_coord w) 1 q = inr n ->
  handle_tap_dance w nt max q = (Some WATap, n, td_evict (w_coord w) (sat_sub n 1) q).
Proof. exact td_other_key. Qed.
Print Assumptions C17_ends_on_other_key.

Theorem C17_ends_when_exhausted : forall w nt max q n,
  (qlen q =? w_prev_queue_len w) && (0 <? w_timeout w) = false -> w_timeout w <> 0 ->
  td_count (w_coord w) 1 q = inl n -> N.of_nat max <= n ->
  handle_tap_dance w nt max q = (Some WATap, n, td_evict (w_coord w) (sat_sub n 1) q).
Proof. exact td_exhausted. Qed.
Print Assumptions C17_ends_when_exhausted.

Theorem C17_otherwise_continues : forall w nt max q n,
  w_timeout w <> 0 -> td_count (w_coord w) 1 q = inl n -> n < N.of_nat max ->
  fst (fst (handle_tap_dance w nt max q)) = None.
Proof. exact td_continues. Qed.
Print Assumptions C17_otherwise_continues.

(* the N-th action (the last if N reaches the list length) is the one performed *)
Theorem C17_chosen_action : forall w acs tdt nt q aq,
  w_cfg w = WTapDance acs tdt nt ->
  let w1 := set_w_ticks (sat_add16 (w_ticks w) 1) (set_w_timeout (sat_sub (w_timeout w) 1) w) in
  forall r n q', handle_tap_dance w1 nt (length acs) q = (Some r, n, q') ->
  forall a, nth_error acs (N.to_nat (sat_sub (N.min n (N.of_nat (length acs))) 1)) = Some a ->
  exists w', tick_wt w q aq = Ok (w', q', aq, Some (r, None)) /\ w_tap w' = a.
Proof. exact tick_wt_tapdance_choice. Qed.
Print Assumptions C17_chosen_action.

(* the key that interrupts the dance stays queued, in order, to be processed after the action *)
Theorem C17_interrupter_kept : forall c r q, filter (not_own c) (td_evict c r q) = filter (not_own c) q.
Proof. exact td_evict_keeps_others. Qed.
Print Assumptions C17_interrupter_kept.

Theorem C17_one_press_only : forall c r q, existsb (q_is_press_at c) (td_evict c r q) = false.
Proof. exact td_evict_no_own_press. Qed.
Print Assumptions C17_one_press_only.

(* the eager form: the count belongs to the key.  A press of a tap-dance-eager key at position c starts a new count (first action
   performed with one tap counted) unless an eager count of that very position is still there, whatever other position - with
   whatever list, also the same one - the old count belonged to *)
From KV Require Import Proofs.C06Combine Proofs.C17Eager.
Theorem C17_eager_press_elsewhere_starts_over : forall cfg rec l a0 rest T c d os ls,
  (match tap_dance_eager l with None => True | Some t => tde_coord t <> c end) ->
  do_action_body cfg rec l (TapDance (a0 :: rest) T true) c d os ls =
  ('(l', _) <- doact rec (set_tap_dance_eager (Some (fresh_dance (a0 :: rest) T c)) (lpt_update_coord c (before_action l c))) a0 c d false ls ;;
   Ok (l', CNone)).
Proof. exact eager_press_elsewhere_starts_over. Qed.
Print Assumptions C17_eager_press_elsewhere_starts_over.

Theorem C17_eager_press_same_position_keeps_count : forall cfg rec l a0 rest T c d os ls t,
  tap_dance_eager l = Some t -> tde_coord t = c ->
  do_action_body cfg rec l (TapDance (a0 :: rest) T true) c d os ls =
  ('(l', _) <- doact rec (lpt_update_coord c (before_action l c)) a0 c d false ls ;; Ok (l', CNone)).
Proof. exact eager_press_same_position_keeps_count. Qed.
Print Assumptions C17_eager_press_same_position_keeps_count.
