(* C18 — virtual keys obey press / release / tap / toggle and their timed forms.  Pinned statements
   about the model.  The TCP path is not run (its handler calls the same handle_fakekey_action): partial. *)
From KV Require Import Kanata.Glue Proofs.C18Proofs.

(* a virtual key is a key at its coordinate: the operations are the layout's own events *)
Theorem C18_press_release_tap : forall cfg l c,
  fakekey_action cfg l 0 c = lay_event cfg l true c /\
  fakekey_action cfg l 1 c = lay_event cfg l false c /\
  fakekey_action cfg l 2 c = (l1 <- lay_event cfg l true c ;; lay_event cfg l1 false c).
Proof. exact (fun cfg l c => conj (fakekey_press cfg l c) (conj (fakekey_release cfg l c) (fakekey_tap cfg l c))). Qed.
Print Assumptions C18_press_release_tap.

Theorem C18_toggle_alternates : forall cfg l c,
  fakekey_action cfg l 3 c = lay_event cfg l (negb (states_has_coord l c)) c.
Proof. exact fakekey_toggle. Qed.
Print Assumptions C18_toggle_alternates.

(* hold-for-duration: for EVERY duration D = n+1, pending during n ticks, released at tick D *)
Theorem C18_hold_for_duration_exact : forall cfg l c (n : nat),
  (forall k, (k < n)%nat ->
     held_vkeys_tick cfg l [(c, N.of_nat (S n) - N.of_nat k)] = Ok (l, [(c, N.of_nat (S n) - N.of_nat k - 1)])) /\
  held_vkeys_tick cfg l [(c, N.of_nat (S n) - N.of_nat n)] = (l' <- lay_event cfg l false c ;; Ok (l', [])).
Proof. exact hold_for_duration_exact. Qed.
Print Assumptions C18_hold_for_duration_exact.

(* "since its most recent activation": re-activation re-arms the deadline, without a second press *)
Theorem C18_hold_for_rearms : forall cfg k l cur x y dur rest pb out,
  vk_find (x, y) (k_vkeys_pending k) = true ->
  custom_press cfg k l cur (CaFakeKeyHoldFor x y dur :: rest) pb out =
    custom_press cfg
      (set_k_vkeys_pending (map (fun p => if coord_eqb (fst p) (x, y) then (fst p, dur) else p) (k_vkeys_pending k)) k)
      l cur rest pb out.
Proof. exact hold_for_rearms. Qed.
Print Assumptions C18_hold_for_rearms.

Theorem C18_on_idle_not_before : forall cfg l tsi x y op idle,
  tsi < idle -> idle_fire cfg l tsi [(x, y, op, idle)] = Ok (l, [(x, y, op, idle)]).
Proof. exact idle_not_before. Qed.
Print Assumptions C18_on_idle_not_before.

Theorem C18_on_idle_fires_once : forall cfg l tsi x y op idle,
  idle <= tsi -> idle_fire cfg l tsi [(x, y, op, idle)] = (l' <- fakekey_action cfg l op (x, y) ;; Ok (l', [])).
Proof. exact idle_fires_once. Qed.
Print Assumptions C18_on_idle_fires_once.

(* the idle time on-idle entries wait for is kept by can_block_update_idle_waiting(ms), called once per loop iteration with the
   length of the iteration: an iteration in which kanata is not idle restarts it, an idle one adds its length (saturating) whatever
   that length is, and keeps the loop awake while an entry waits; together with the two theorems above: an entry fires in the first
   iteration in which the accumulated idle time reaches its duration, and not before *)
Theorem C18_idle_time_restarts : forall cfg k ms,
  k_is_idle_cfg cfg k = false -> fst (k_can_block cfg k ms) = set_k_ticks_since_idle 0 k.
Proof. exact idle_time_restarts. Qed.
Print Assumptions C18_idle_time_restarts.

Theorem C18_idle_time_accumulates : forall cfg k ms,
  k_is_idle_cfg cfg k = true -> counting k = true ->
  fst (k_can_block cfg k ms) = set_k_ticks_since_idle (sat_add16 (k_ticks_since_idle k) ms) k /\
  snd (k_can_block cfg k ms) = false.
Proof. exact idle_time_accumulates. Qed.
Print Assumptions C18_idle_time_accumulates.

(* virtual-key events and the chords-v2 queue: a tick that is processed remembers the length the queue has once the virtual-key
   events have left it, so the next virtual-key event always makes the queue look different (defect repaired by 88090f5) *)
From KV Require Import Keyberon.ChordsV2 Proofs.C09V2Countdown.
Theorem C18_remembered_queue_length_excludes_virtual_keys : forall c dq layer c' dq',
  drain_inputs c dq layer = Ok (c', dq') ->
  (0 <? cv_ignore c) = false ->
  ((0 <? cv_until_change c) && (cv_prev_layer c =? layer) && (cv_prev_qlen c =? N.of_nat (length (cv_queue c)))) = false ->
  exists q1 dq1, drain_virtual (cv_queue c) dq = Ok (q1, dq1) /\ cv_prev_qlen c' = N.of_nat (length q1).
Proof. exact remembered_length_excludes_virtual_keys. Qed.
Print Assumptions C18_remembered_queue_length_excludes_virtual_keys.

(* virtual-key events - presses and releases alike - are taken out of the chord queue in the tick they arrive, in their order, and
   nothing else is (a change that lets only the presses through is seeded C18-m10) *)
Theorem C18_virtual_key_events_leave_the_chord_queue_at_once : forall q dq q1 dq1,
  drain_virtual q dq = Ok (q1, dq1) ->
  q1 = filter (fun qd => fst (q_coord qd) =? 0) q /\ dq1 = dq ++ filter (fun qd => negb (fst (q_coord qd) =? 0)) q.
Proof. exact virtual_key_events_leave_at_once. Qed.
Print Assumptions C18_virtual_key_events_leave_the_chord_queue_at_once.
