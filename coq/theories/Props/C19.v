(* C19 — dynamic macros replay what was typed and never leave a key down.  Pinned statements about
   the model of src/kanata/dynamic_macro.rs. *)
From KV Require Import Kanata.DynMacro Proofs.C19Proofs.

(* the saved macro is exactly the typed events, in order, minus the last one (the stop key's own
   press) and the truncated tail, plus releases for the keys still down *)
Theorem C19_stop_saves_typed_minus_stop_key : forall evs id n,
  stop_macro (Some (fold_left record_one evs (dr_new id))) n =
    Ok (None, Some (id, add_releases (firstn (length (removelast (map item_of evs)) - N.to_nat n)
                                              (removelast (map item_of evs))))).
Proof. exact stop_saves_typed_minus_stop_key. Qed.
Print Assumptions C19_stop_saves_typed_minus_stop_key.

Theorem C19_nothing_left_down : forall items, unreleased (add_releases items) = [].
Proof. exact nothing_left_down. Qed.
Print Assumptions C19_nothing_left_down.

Theorem C19_no_self_recursion : forall id st ms,
  mem_n id (dp_active st) = true -> play_macro id (Some st) ms = Some st.
Proof. exact no_self_recursion. Qed.
Print Assumptions C19_no_self_recursion.

Theorem C19_nested_play : forall id st ms items,
  mem_n id (dp_active st) = false -> dm_lookup id ms = Some items ->
  play_macro id (Some st) ms =
    Some {| dp_active := id :: dp_active st; dp_delay_remaining := dp_delay_remaining st;
            dp_items := items ++ DMEnd id :: dp_items st |}.
Proof. exact nested_play_marks_active. Qed.
Print Assumptions C19_nested_play.

Theorem C19_recording_limit : forall s k max,
  max * 2 < N.of_nat (length (dr_items s)) ->
  record_press (Some s) k max = (None, Some (dr_id s, add_releases (dr_items s))).
Proof. exact recording_limit. Qed.
Print Assumptions C19_recording_limit.

Theorem C19_replay_in_order : forall st recorded it rest,
  dp_delay_remaining st <= 1 -> dp_items st = it :: rest ->
  exists st' ev, tick_replay (Some st) recorded = (Some st', ev) /\ dp_items st' = rest /\
                 option_map (fun e => (fst (fst e), snd (fst e))) ev = ev_of it.
Proof. exact replay_pops_in_order. Qed.
Print Assumptions C19_replay_in_order.

Theorem C19_replay_finishes : forall st recorded,
  dp_delay_remaining st <= 1 -> dp_items st = [] -> tick_replay (Some st) recorded = (None, None).
Proof. exact replay_finishes. Qed.
Print Assumptions C19_replay_finishes.
