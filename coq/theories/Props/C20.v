(* C20 — pinned statements.  Nothing but Theorem / exact / Print Assumptions.
   Scope: the model of zippychord.rs (Kanata/Zippy.v).  The receiving application is a text buffer: a press of
   backspace removes the last character, a press of another key appends it, releases do nothing.
   Proved for: standalone chords (no followup dictionary involved), erasable lower-case outputs, no shift / altgr /
   caps-word held, smart space off or add-space-only.  Followups, shifted output and smart-space `full` are decided
   by the correspondence and the text-buffer oracle on the real output only (see checks/c20.py). *)
From KV Require Import Kanata.Zippy Proofs.C20Proofs.

(* For every dictionary and every press order: if each press either extends a possible chord or completes a chord
   with a plain output (shorter chords completed on the way included), and the keys pressed form a chord with output
   outp, then the screen holds what it held before plus exactly the expansion of outp — every character typed while
   forming the chord and every shorter expansion it supersedes has been erased, no more and no fewer. *)
Theorem C20_chord_leaves_exactly_the_expansion : forall c presses last outp,
  zc_ss c <> 2%N -> zentries (zc_chords c) <> [] ->
  hold_ok c [] (presses ++ [last]) ->
  zlookup (zc_chords c) (fold_left (fun ks k => sorted_insert k ks) (presses ++ [last]) []) = ZHas outp None ->
  forall base, trun base (snd (presses_run c z_init (presses ++ [last]))) = base ++ expansion c outp.
Proof. exact chord_leaves_expansion. Qed.
Print Assumptions C20_chord_leaves_exactly_the_expansion.

(* the same from any state of a hold that satisfies the bookkeeping invariant, for any continuation of the hold:
   the screen is the last completed expansion followed by the keys typed after it *)
Theorem C20_hold_text : forall c, zc_ss c <> 2%N -> zentries (zc_chords c) <> [] -> forall presses z S,
  Inv z S -> hold_ok c (z_keys z) presses ->
  forall base, trun (base ++ S) (snd (presses_run c z presses)) = base ++ screen_after c (z_keys z) S presses.
Proof. exact hold_text. Qed.
Print Assumptions C20_hold_text.

(* releases never change the text; with an empty dictionary the filter is the identity *)
Theorem C20_release_writes_no_text : forall c z osc s, trun s (snd (z_release c z osc)) = s.
Proof. exact release_text. Qed.
Print Assumptions C20_release_writes_no_text.

Theorem C20_empty_dictionary_passes_through : forall c z osc, zentries (zc_chords c) = [] ->
  snd (z_press c z osc) = [ZP osc] /\ snd (z_release c z osc) = [ZR osc].
Proof. exact empty_dictionary_passes. Qed.
Print Assumptions C20_empty_dictionary_passes_through.

(* a whole typing session: holds that each end with a completed chord, every key released (in any order) before the
   next hold; the text is what was there before followed by the expansion of each hold in turn *)
Theorem C20_session_leaves_the_expansions : forall c, zc_ss c <> 2%N -> zentries (zc_chords c) <> [] -> forall holds z,
  Inv z [] -> z_keys z = [] -> Forall (hold_wf c) holds ->
  forall base, trun base (snd (session_run c z holds)) = base ++ session_text c holds.
Proof. exact session_leaves_the_expansions. Qed.
Print Assumptions C20_session_leaves_the_expansions.

(* ---- shift / altgr held by the user are restored afterwards ---- *)
From KV Require Import Proofs.C20Mods.
(* one press, whatever it does (pass through, partial chord, activation with backspaces, typing loop, smart space): if the
   filter's flag for shift / altgr key k equals the key's state at the OS before, then after the events written the key is down
   at the OS exactly if the user holds it, and the flag says so too.  Hypothesis: no expansion is typed with a shift/altgr key *)
Theorem C20_press_restores_shift_and_altgr : forall c z osc k p,
  is_mod k -> outputs_nomod c z ->
  (zentries (zc_chords c) <> [] -> held k z = p) ->
  down k p (snd (z_press c z osc)) = phys_press k osc p /\
  (zentries (zc_chords c) <> [] -> held k (fst (z_press c z osc)) = phys_press k osc p).
Proof. exact press_restores_mods. Qed.
Print Assumptions C20_press_restores_shift_and_altgr.

Theorem C20_release_keeps_shift_and_altgr : forall c z osc k p,
  is_mod k -> (zentries (zc_chords c) <> [] -> held k z = p) ->
  down k p (snd (z_release c z osc)) = phys_release k osc p /\
  (zentries (zc_chords c) <> [] -> held k (fst (z_release c z osc)) = phys_release k osc p).
Proof. exact release_restores_mods. Qed.
Print Assumptions C20_release_keeps_shift_and_altgr.

(* a whole run of presses, releases and ticks in which no tick is the forced reset (more than 10000 ticks without a key event):
   at the end each shift / altgr key is down at the OS exactly if the user holds it *)
Theorem C20_held_modifiers_are_restored : forall c k, is_mod k -> forall ops z p,
  Ok20 c z -> (zentries (zc_chords c) <> [] -> held k z = p) -> no_forced_reset c z ops ->
  down k p (snd (zrun c z ops)) = fold_left (phys_step k) ops p.
Proof. exact held_modifiers_are_restored. Qed.
Print Assumptions C20_held_modifiers_are_restored.

(* the excluded class is a real one (known finding shift-held-past-reset): in the run "hold shift, 10001 ticks, d, g" with the
   dictionary d+g -> "Dog" the user still holds shift at the end but it is up at the OS *)
Theorem C20_held_shift_lost_after_forced_reset :
  fold_left (phys_step 42) (ex20_ops 10001) false = true /\
  down 42 false (snd (zrun ex20_cfg z_init (ex20_ops 10001))) = false.
Proof. exact held_shift_lost_after_forced_reset. Qed.
Print Assumptions C20_held_shift_lost_after_forced_reset.

(* ---- typing that does not form a chord passes through unchanged ---- *)
Theorem C20_outside_key_passes_through : forall c z osc,
  z_en z = ZEnabled -> z_ss_sent z = false -> z_prio z = None ->
  osc <> 42 -> osc <> 54 -> osc <> 100 -> is_zippy_ignored osc = false ->
  zlookup (zc_chords c) (sorted_insert osc (z_keys z)) = ZNeither ->
  snd (z_press c z osc) = [ZP osc] /\ (zentries (zc_chords c) <> [] -> z_en (fst (z_press c z osc)) = ZDisabled).
Proof. exact outside_key_passes_through. Qed.
Print Assumptions C20_outside_key_passes_through.

Theorem C20_disabled_passes_through : forall c z osc,
  z_en z <> ZEnabled -> z_ss_sent z = false -> snd (z_press c z osc) = [ZP osc].
Proof. exact disabled_passes_through. Qed.
Print Assumptions C20_disabled_passes_through.

(* ---- "in any order" ---- *)
From Coq Require Import Permutation Sorting.Sorted.
From KV Require Import Proofs.C20Sorted.
(* the lookup key of C20_chord_leaves_exactly_the_expansion (the presses folded into the sorted key list) is the same for every
   order in which the same keys are pressed *)
Theorem C20_same_keys_any_order_same_lookup_key : forall a b,
  (forall x, In x a <-> In x b) ->
  fold_left (fun ks k => sorted_insert k ks) a [] = fold_left (fun ks k => sorted_insert k ks) b [].
Proof. exact same_keys_any_order_same_lookup_key. Qed.
Print Assumptions C20_same_keys_any_order_same_lookup_key.

Theorem C20_permuted_presses_same_lookup_key : forall a b, Permutation a b ->
  fold_left (fun ks k => sorted_insert k ks) a [] = fold_left (fun ks k => sorted_insert k ks) b [].
Proof. exact permuted_presses_same_lookup_key. Qed.
Print Assumptions C20_permuted_presses_same_lookup_key.

(* the list of held keys stays strictly increasing through every press and every release (the lookup and the insertion rely on it;
   a release that breaks the order makes later chords unreachable) *)
Theorem C20_held_keys_stay_sorted : forall c z osc, StronglySorted N.lt (z_keys z) ->
  StronglySorted N.lt (z_keys (fst (z_press c z osc))) /\ StronglySorted N.lt (z_keys (fst (z_release c z osc))).
Proof. exact held_keys_stay_sorted. Qed.
Print Assumptions C20_held_keys_stay_sorted.
