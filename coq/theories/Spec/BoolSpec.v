(* Specification of switch conditions: what a written condition means.  Independent of opcodes. *)
From KV Require Export Parser.SwitchCompile.

(* the threshold a key-timing test really compares with (the written one, rounded down by the
   lossy compression; see C10_compress_* for how far) *)
Definition timing_threshold (t : N) : N := lossy_decompress_ticks (lossy_compress_ticks t).

Definition denote_leaf (env : sw_env) (lf : leaf) : bool :=
  match lf with
  | LKey k => existsb (N.eqb k) (e_keys env)
  | LHistKey k r =>
      match nth_error (e_hkeys env) (N.to_nat r) with Some (k', _) => k' =? k | None => false end
  | LLt nth t =>
      match nth_error (e_hkeys env) (N.to_nat nth) with Some (_, since) => since <=? timing_threshold t | None => false end
  | LGt nth t =>
      match nth_error (e_hkeys env) (N.to_nat nth) with Some (_, since) => timing_threshold t <? since | None => false end
  | LInput row y => existsb (coord_eqb (row, y)) (e_coords env)
  | LHistInput row y r =>
      match nth_error (e_hinputs env) (N.to_nat r) with Some (c, _) => coord_eqb c (row, y) | None => false end
  | LLayer l => match e_layers env with l' :: _ => l' =? l | [] => false end
  | LBaseLayer l => e_default env =? l
  end.

Fixpoint denote (env : sw_env) (e : bexpr) : bool :=
  match e with
  | BLeaf lf => denote_leaf env lf
  | BOp BOr es => existsb (denote env) es
  | BOp BAnd es => forallb (denote env) es
  | BOp BNot es => negb (existsb (denote env) es)      (* "not any of" *)
  end.

(* a case's condition is the implicit `or` of its top-level items; an empty condition is true *)
Definition denote_top (env : sw_env) (es : list bexpr) : bool :=
  match es with [] => true | _ => existsb (denote env) es end.

(* cases are tried top to bottom; a firing break stops, a firing fallthrough continues *)
Fixpoint cases_spec (env : sw_env) (cs : list (list bexpr * action * bool)) : list action :=
  match cs with
  | [] => []
  | (cond, a, brk) :: rest =>
      if denote_top env cond then (if brk then [a] else a :: cases_spec env rest)
      else cases_spec env rest
  end.

Definition wf_leaf (lf : leaf) : Prop :=
  match lf with
  | LKey k => k < KEY_MAX_KB
  | LHistKey k r => k <= MAX_OPCODE_LEN /\ r < 8
  | LLt nth t | LGt nth t => nth < 8 /\ t < 65536
  | LInput row y => row < 4 /\ y < 1024
  | LHistInput row y r => row < 4 /\ y < 1024 /\ r < 8
  | LLayer l | LBaseLayer l => True
  end.

(* every operator has at least one operand (the property's quantifier) *)
Inductive wf : bexpr -> Prop :=
| wf_leaf_ lf : wf_leaf lf -> wf (BLeaf lf)
| wf_op o es : es <> [] -> Forall wf es -> wf (BOp o es).
