(* The simple layered-keymap model that property C04 compares kanata with.  Nothing here knows about
   queues of undecided keys, one-shot, tap-hold, sequences or chords: the state is the list of things
   currently held (keys and layers, oldest first, each tagged with the physical coordinate whose press
   created it) and the base layer; pending input events wait in a FIFO and one is applied per tick.
   Only the configuration tables (lcfg) are shared with the keyberon model.  No proofs. *)
From KV Require Export Keyberon.Types.

Inductive hentry :=
| HKey (k : N) (c : coord) (chord : bool)     (* an output key; chord = part of an output chord such as C-a *)
| HLayer (ly : N) (c : coord).                (* a layer held by layer-while-held *)

Record kmst := { held : list hentry; base : N }.

Definition h_coord (h : hentry) : coord := match h with HKey _ c _ => c | HLayer _ c => c end.
Definition h_is_chord (h : hentry) : bool := match h with HKey _ _ b => b | HLayer _ _ => false end.

(* what the OS sees: the keys held, in activation order *)
Fixpoint km_keys (hs : list hentry) : list N :=
  match hs with
  | [] => []
  | HKey k _ _ :: t => k :: km_keys t
  | HLayer _ _ :: t => km_keys t
  end.
(* held layers, most recently activated first *)
Fixpoint km_layers_rev (hs : list hentry) : list N :=
  match hs with
  | [] => []
  | HLayer ly _ :: t => ly :: km_layers_rev t
  | HKey _ _ _ :: t => km_layers_rev t
  end.
Definition km_layers (s : kmst) : list N := km_layers_rev (rev (held s)).
Definition km_current (s : kmst) : N := match km_layers s with ly :: _ => ly | [] => base s end.

(* at most 64 entries are held at once; further ones are dropped (the capacity of keyberon's state vector) *)
Definition km_push (h : hentry) (s : kmst) : kmst :=
  {| held := fst (sat_push_back STATES_CAP h (held s)); base := base s |}.
Definition km_filter (p : hentry -> bool) (s : kmst) : kmst := {| held := filter p (held s); base := base s |}.
(* the keys of an output chord are let go as soon as anything else is done *)
Definition km_drop_chords (s : kmst) : kmst := km_filter (fun h => negb (h_is_chord h)) s.

(* ---- configuration lookups ---- *)
Fixpoint km_assoc (y : N) (l : list (N * action)) : option action :=
  match l with [] => None | (k, a) :: t => if k =? y then Some a else km_assoc y t end.
Definition km_row (r : row) (y : N) : action :=
  match km_assoc y (r_cells r) with
  | Some a => a
  | None => match r_default r with RDConst a => a | RDIdentKey => KeyCode y end
  end.
(* the action written for coordinate c on layer ly (rows: 0 = physical keys, 1 = virtual keys) *)
Definition km_cell (cfg : lcfg) (ly : N) (c : coord) : action :=
  match nth_error (layers cfg) (N.to_nat ly) with
  | Some (r0, r1) => km_row (if fst c =? 0 then r0 else r1) (snd c)
  | None => NoOp
  end.
(* what lies below every layer: the defsrc key itself (nothing for a virtual key) *)
Definition km_src (cfg : lcfg) (c : coord) : action :=
  if fst c =? 0 then km_row (src_keys cfg) (snd c) else NoOp.

(* search order of a press: held layers newest first (at most 12 entries in all), then the base
   layer, then the first layer when so configured *)
Definition km_order (cfg : lcfg) (s : kmst) : list N :=
  if trans_v2 cfg then
    let v := fst (sat_push_back MAX_ACTIVE_LAYERS (base s) (firstn MAX_ACTIVE_LAYERS (km_layers s))) in
    if delegate_first cfg && negb (km_current s =? 0) && negb (base s =? 0)
    then fst (sat_push_back MAX_ACTIVE_LAYERS 0 v) else v
  else
    if delegate_first cfg && negb (km_current s =? 0) then [km_current s; 0] else [km_current s].

Section Press.
  Variable cfg : lcfg.
  Variable c : coord.

  (* a plain key or nothing: the only things a defsrc entry can be *)
  Definition km_simple (a : action) (s : kmst) : kmst :=
    match a with
    | KeyCode k => km_push (HKey k c false) (km_drop_chords s)
    | _ => km_drop_chords s
    end.

  (* perform action a; [below] is what a transparent item nested in a does: continue the search under
     the layer on which a was found *)
  Fixpoint km_perform (below : kmst -> kmst) (a : action) (s : kmst) {struct a} : kmst :=
    match a with
    | Trans => below s
    | KeyCode k => km_push (HKey k c false) (km_drop_chords s)
    | MultipleKeyCodes ks => fold_left (fun s k => km_push (HKey k c true) s) ks (km_drop_chords s)
    | MultipleActions acs =>
        (fix go (acs : list action) (s : kmst) : kmst :=
           match acs with [] => s | a1 :: t => go t (km_perform below a1 s) end) acs (km_drop_chords s)
    | Layer ly => km_push (HLayer ly c) (km_drop_chords s)
    | DefaultLayer ly =>
        let s := km_drop_chords s in
        if ly <? N.of_nat (length (layers cfg)) then {| held := held s; base := ly |} else s
    | ReleaseKey k =>
        km_filter (fun h => match h with HKey k1 _ _ => negb (k1 =? k) | _ => true end) (km_drop_chords s)
    | ReleaseLayer ly =>
        km_filter (fun h => match h with HLayer l1 _ => negb (l1 =? ly) | _ => true end) (km_drop_chords s)
    | Src => km_simple (km_row (src_keys cfg) (snd c)) s      (* use-defsrc: the defsrc key of this position *)
    | _ => km_drop_chords s              (* no-op (and everything outside the fragment) *)
    end.

  (* search the layers in order for the first non-transparent item and perform it *)
  Fixpoint km_press_from (order : list N) (s : kmst) {struct order} : kmst :=
    match order with
    | [] => km_simple (km_src cfg c) s
    | ly :: rest =>
        match km_cell cfg ly c with
        | Trans => km_press_from rest s
        | a => km_perform (km_press_from rest) a s
        end
    end.
End Press.

Definition km_press (cfg : lcfg) (c : coord) (s : kmst) : kmst := km_press_from cfg c (km_order cfg s) s.
(* the matching release undoes what was done at that coordinate, whatever the layers are now *)
Definition km_release (c : coord) (s : kmst) : kmst := km_filter (fun h => negb (coord_eqb (h_coord h) c)) s.

(* ---- the system: FIFO of pending events, one applied per tick ---- *)
Record kmsys := { km_st : kmst; km_pending : list (bool * coord) }.
Inductive km_input := KmEvent (press : bool) (c : coord) | KmTick.

Definition km_step (cfg : lcfg) (m : kmsys) (i : km_input) : kmsys :=
  match i with
  | KmEvent p c => {| km_st := km_st m; km_pending := km_pending m ++ [(p, c)] |}
  | KmTick =>
      match km_pending m with
      | [] => m
      | (p, c) :: t =>
          {| km_st := if p then km_press cfg c (km_st m) else km_release c (km_st m); km_pending := t |}
      end
  end.

(* the OS-visible key list after each input *)
Fixpoint km_run (cfg : lcfg) (m : kmsys) (is : list km_input) : list (list N) :=
  match is with
  | [] => []
  | i :: t => let m' := km_step cfg m i in km_keys (held (km_st m')) :: km_run cfg m' t
  end.
