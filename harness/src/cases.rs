//! Case-file reader shared by the subcommands.
//!
//! ```text
//! CASE <id>
//! CFG <n>            -- followed by n lines of kanata configuration text
//! FILE <name> <n>    -- optional includable file, n lines
//! H <tokens...>      -- history tokens (may repeat; concatenated)
//! END
//! ```
use rustc_hash::FxHashMap as HashMap;
use std::io::BufRead;

#[derive(Default, Clone)]
pub struct Case {
    pub id: String,
    pub cfg: String,
    pub files: HashMap<String, String>,
    pub hist: Vec<String>,
}

pub fn read_cases(path: &str) -> Vec<Case> {
    let f = std::fs::File::open(path).expect("open case file");
    let mut lines = std::io::BufReader::new(f).lines().map(|l| l.expect("utf8 line"));
    let mut out = vec![];
    let mut cur: Option<Case> = None;
    while let Some(line) = lines.next() {
        if let Some(id) = line.strip_prefix("CASE ") {
            cur = Some(Case {
                id: id.trim().to_string(),
                ..Default::default()
            });
        } else if let Some(n) = line.strip_prefix("CFG ") {
            let n: usize = n.trim().parse().expect("CFG n");
            let mut s = String::new();
            for _ in 0..n {
                s.push_str(&lines.next().expect("cfg line"));
                s.push('\n');
            }
            cur.as_mut().expect("in case").cfg = s;
        } else if let Some(rest) = line.strip_prefix("FILE ") {
            let mut it = rest.split_whitespace();
            let name = it.next().expect("file name").to_string();
            let n: usize = it.next().expect("n").parse().expect("FILE n");
            let mut s = String::new();
            for _ in 0..n {
                s.push_str(&lines.next().expect("file line"));
                s.push('\n');
            }
            cur.as_mut().expect("in case").files.insert(name, s);
        } else if let Some(rest) = line.strip_prefix("H ") {
            cur.as_mut()
                .expect("in case")
                .hist
                .extend(rest.split_whitespace().map(|s| s.to_string()));
        } else if line.trim() == "END" {
            out.push(cur.take().expect("END without CASE"));
        }
    }
    out
}
