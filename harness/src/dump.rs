//! Serialises a parsed configuration (what the *real* parser produced) into the token format the
//! extracted Coq model reads.  See coq/extraction/driver.ml for the reader.
use kanata_keyberon::action::*;
use kanata_keyberon::key_code::KeyCode;
use kanata_parser::cfg::*;
use kanata_parser::custom_action::CustomAction;
use std::fmt::Write;

pub type KAction = Action<'static, KanataCustom>;

#[derive(Default)]
pub struct Customs {
    /// (address of slice data, len) -> id
    pub table: Vec<((usize, usize), &'static [&'static CustomAction])>,
}

impl Customs {
    pub fn id_of(&mut self, v: &'static [&'static CustomAction]) -> usize {
        let key = (v.as_ptr() as usize, v.len());
        if let Some(i) = self.table.iter().position(|(k, _)| *k == key) {
            return i;
        }
        self.table.push((key, v));
        self.table.len() - 1
    }
    pub fn lookup(&self, v: &[&CustomAction]) -> Option<usize> {
        let key = (v.as_ptr() as usize, v.len());
        self.table.iter().position(|(k, _)| *k == key)
    }
}

fn kc(k: KeyCode) -> u16 {
    k as u16
}

pub fn opcode_raw_pub(op: &OpCode) -> u16 {
    opcode_raw(op)
}

fn opcode_raw(op: &OpCode) -> u16 {
    // OpCode's field is private; its derived Debug prints `OpCode(<u16>)`.
    let s = format!("{op:?}");
    s.trim_start_matches("OpCode(")
        .trim_end_matches(')')
        .parse()
        .expect("OpCode debug format")
}

fn closure_info(f: &(dyn Fn(kanata_keyberon::layout::QueuedIter) -> (Option<kanata_keyberon::layout::WaitingAction>, bool) + Send + Sync)) -> (u8, Vec<u16>) {
    let addr = f as *const _ as *const () as usize;
    let reg = kanata_parser::cfg::verif_tap_hold::TAP_HOLD_CLOSURES.lock().unwrap();
    for (a, kind, keys) in reg.iter().rev() {
        if *a == addr {
            return (*kind, keys.clone());
        }
    }
    panic!("tap-hold closure not registered (build with --cfg kanata_verif)");
}

pub fn seq_events(out: &mut String, evs: &[SequenceEvent<'static, KanataCustom>], cu: &mut Customs) {
    write!(out, "{} ", evs.len()).unwrap();
    for e in evs {
        match e {
            SequenceEvent::NoOp => out.push_str("n "),
            SequenceEvent::Press(k) => write!(out, "p {} ", kc(*k)).unwrap(),
            SequenceEvent::Release(k) => write!(out, "r {} ", kc(*k)).unwrap(),
            SequenceEvent::Tap(k) => write!(out, "t {} ", kc(*k)).unwrap(),
            SequenceEvent::Delay { duration } => write!(out, "d {duration} ").unwrap(),
            SequenceEvent::Custom(c) => write!(out, "c {} ", cu.id_of(c)).unwrap(),
            SequenceEvent::Complete => out.push_str("x "),
            _ => panic!("unknown sequence event"),
        }
    }
}

pub fn action(out: &mut String, a: &KAction, cu: &mut Customs) {
    match a {
        Action::NoOp => out.push_str("N "),
        Action::Trans => out.push_str("T "),
        Action::KeyCode(k) => write!(out, "K {} ", kc(*k)).unwrap(),
        Action::MultipleKeyCodes(ks) => {
            write!(out, "MK {} ", ks.len()).unwrap();
            for k in ks.iter() {
                write!(out, "{} ", kc(*k)).unwrap();
            }
        }
        Action::MultipleActions(acs) => {
            write!(out, "MA {} ", acs.len()).unwrap();
            for x in acs.iter() {
                action(out, x, cu);
            }
        }
        Action::Layer(l) => write!(out, "L {l} ").unwrap(),
        Action::DefaultLayer(l) => write!(out, "DL {l} ").unwrap(),
        Action::Sequence { events } => {
            out.push_str("SQ ");
            seq_events(out, events, cu);
        }
        Action::RepeatableSequence { events } => {
            out.push_str("RSQ ");
            seq_events(out, events, cu);
        }
        Action::CancelSequences => out.push_str("CS "),
        Action::ReleaseState(ReleasableState::KeyCode(k)) => write!(out, "RK {} ", kc(*k)).unwrap(),
        Action::ReleaseState(ReleasableState::Layer(l)) => write!(out, "RL {l} ").unwrap(),
        Action::HoldTap(ht) => {
            write!(out, "HT {} ", ht.timeout).unwrap();
            action(out, &ht.hold, cu);
            action(out, &ht.tap, cu);
            action(out, &ht.timeout_action, cu);
            match ht.config {
                HoldTapConfig::Default => out.push_str("D "),
                HoldTapConfig::HoldOnOtherKeyPress => out.push_str("P "),
                HoldTapConfig::PermissiveHold => out.push_str("R "),
                HoldTapConfig::Custom(f) => {
                    let (kind, keys) = closure_info(f);
                    write!(out, "{} {} ", if kind == 0 { "RKS" } else { "EKS" }, keys.len()).unwrap();
                    for k in keys {
                        write!(out, "{k} ").unwrap();
                    }
                }
                _ => panic!("unknown hold-tap config"),
            }
            write!(out, "{} ", ht.tap_hold_interval).unwrap();
        }
        Action::Custom(c) => write!(out, "C {} ", cu.id_of(c)).unwrap(),
        Action::OneShot(os) => {
            out.push_str("OS ");
            action(out, os.action, cu);
            let e = match os.end_config {
                OneShotEndConfig::EndOnFirstPress => 0,
                OneShotEndConfig::EndOnFirstPressOrRepress => 1,
                OneShotEndConfig::EndOnFirstRelease => 2,
                OneShotEndConfig::EndOnFirstReleaseOrRepress => 3,
                _ => panic!("unknown one-shot end config"),
            };
            write!(out, "{} {} ", os.timeout, e).unwrap();
        }
        Action::OneShotIgnoreEventsTicks(t) => write!(out, "OSI {t} ").unwrap(),
        Action::TapDance(td) => {
            write!(out, "TD {} ", td.actions.len()).unwrap();
            for x in td.actions.iter() {
                action(out, x, cu);
            }
            let eager = matches!(td.config, TapDanceConfig::Eager);
            write!(out, "{} {} ", td.timeout, eager as u8).unwrap();
        }
        Action::Chords(g) => {
            write!(out, "CH {} ", g.coords.len()).unwrap();
            for ((x, y), m) in g.coords.iter() {
                write!(out, "{x} {y} {m} ").unwrap();
            }
            write!(out, "{} ", g.chords.len()).unwrap();
            for (m, a2) in g.chords.iter() {
                write!(out, "{m} ").unwrap();
                action(out, a2, cu);
            }
            write!(out, "{} ", g.timeout).unwrap();
        }
        Action::Repeat => out.push_str("RP "),
        Action::Fork(f) => {
            out.push_str("F ");
            action(out, &f.left, cu);
            action(out, &f.right, cu);
            write!(out, "{} ", f.right_triggers.len()).unwrap();
            for k in f.right_triggers.iter() {
                write!(out, "{} ", kc(*k)).unwrap();
            }
        }
        Action::Switch(sw) => {
            write!(out, "SW {} ", sw.cases.len()).unwrap();
            for (ops, a2, brk) in sw.cases.iter() {
                write!(out, "{} ", ops.len()).unwrap();
                for op in ops.iter() {
                    write!(out, "{} ", opcode_raw(op)).unwrap();
                }
                action(out, a2, cu);
                write!(out, "{} ", matches!(brk, BreakOrFallthrough::Break) as u8).unwrap();
            }
        }
        Action::Src => out.push_str("SRC "),
    }
}

pub fn row(out: &mut String, r: &[KAction], cu: &mut Customs) {
    // sparse form: pick the default that covers most cells among NoOp / Trans / KeyCode(0) / KeyCode(index)
    let matches_default = |d: u8, i: usize, a: &KAction| -> bool {
        match (d, a) {
            (0, Action::NoOp) => true,
            (1, Action::Trans) => true,
            (2, Action::KeyCode(k)) => (*k as u16) == 0,
            (3, Action::KeyCode(k)) => (*k as u16) as usize == i,
            _ => false,
        }
    };
    let mut best = (0u8, 0usize);
    for d in 0..4u8 {
        let n = r.iter().enumerate().filter(|(i, a)| matches_default(d, *i, a)).count();
        if n > best.1 {
            best = (d, n);
        }
    }
    let d = best.0;
    let cells: Vec<(usize, &KAction)> = r.iter().enumerate().filter(|(i, a)| !matches_default(d, *i, a)).collect();
    let dname = ["N", "T", "K0", "I"][d as usize];
    write!(out, "ROW {} {} {} ", r.len(), dname, cells.len()).unwrap();
    for (i, a) in cells {
        write!(out, "{i} ").unwrap();
        action(out, a, cu);
    }
    out.push('\n');
}

/// Dump of the layout configuration: option line, src_keys row, then two rows per layer.
pub fn layout_cfg(cfg: &Cfg, cu: &mut Customs) -> String {
    let mut out = String::new();
    // SAFETY of the transmute-free access: `b()` only shrinks the lifetime; we need 'static to
    // store custom slices in the table for the duration of the case, during which cfg is alive.
    let l: &'static BorrowedKLayout<'static> = unsafe { std::mem::transmute(cfg.layout.b()) };
    writeln!(
        out,
        "LCFG {} {} {} {} {} {}",
        cfg.options.trans_resolution_behavior_v2 as u8,
        cfg.options.delegate_to_first_layer as u8,
        l.quick_tap_hold_timeout as u8,
        l.oneshot.pause_input_processing_delay,
        l.layers.len(),
        l.chords_v2.is_some() as u8,
    )
    .unwrap();
    row(&mut out, &l.src_keys[..], cu);
    for layer in l.layers.iter() {
        row(&mut out, &layer[0][..], cu);
        row(&mut out, &layer[1][..], cu);
    }
    out
}

/// Dump for the kanata-level model: the layout configuration followed by kanata-level settings.
pub fn kanata_cfg(k: &kanata_state_machine::Kanata, cu: &mut Customs) -> String {
    let mut out = String::new();
    let l: &'static BorrowedKLayout<'static> = unsafe { std::mem::transmute(k.layout.b()) };
    out.push_str(&layout_of(l, cu));
    out
}

pub fn layout_of(l: &'static BorrowedKLayout<'static>, cu: &mut Customs) -> String {
    let mut out = String::new();
    writeln!(
        out,
        "LCFG {} {} {} {} {} {}",
        l.verif_trans_settings().0 as u8,
        l.verif_trans_settings().1 as u8,
        l.quick_tap_hold_timeout as u8,
        l.oneshot.pause_input_processing_delay,
        l.layers.len(),
        l.chords_v2.is_some() as u8,
    )
    .unwrap();
    row(&mut out, &l.src_keys[..], cu);
    for layer in l.layers.iter() {
        row(&mut out, &layer[0][..], cu);
        row(&mut out, &layer[1][..], cu);
    }
    out
}
