//! Serialises a parsed configuration (what the *real* parser produced) into the token format the
//! extracted Coq model reads.  See coq/extraction/driver.ml for the reader.
use kanata_keyberon::action::*;
use kanata_keyberon::key_code::KeyCode;
use kanata_parser::cfg::*;
use kanata_parser::custom_action::CustomAction;
use std::fmt::Write;

pub type KAction = Action<'static, KanataCustom>;

#[derive(Default)]
pub struct Customs {
    /// (address of slice data, len) -> id
    pub table: Vec<((usize, usize), &'static [&'static CustomAction])>,
}

impl Customs {
    pub fn id_of(&mut self, v: &'static [&'static CustomAction]) -> usize {
        let key = (v.as_ptr() as usize, v.len());
        if let Some(i) = self.table.iter().position(|(k, _)| *k == key) {
            return i;
        }
        self.table.push((key, v));
        self.table.len() - 1
    }
    pub fn lookup(&self, v: &[&CustomAction]) -> Option<usize> {
        let key = (v.as_ptr() as usize, v.len());
        self.table.iter().position(|(k, _)| *k == key)
    }
}

fn kc(k: KeyCode) -> u16 {
    k as u16
}

pub fn opcode_raw_pub(op: &OpCode) -> u16 {
    opcode_raw(op)
}

fn opcode_raw(op: &OpCode) -> u16 {
    // OpCode's field is private; its derived Debug prints `OpCode(<u16>)`.
    let s = format!("{op:?}");
    s.trim_start_matches("OpCode(")
        .trim_end_matches(')')
        .parse()
        .expect("OpCode debug format")
}

fn closure_info(f: &(dyn Fn(kanata_keyberon::layout::QueuedIter) -> (Option<kanata_keyberon::layout::WaitingAction>, bool) + Send + Sync)) -> (u8, Vec<u16>) {
    let addr = f as *const _ as *const () as usize;
    let reg = kanata_parser::cfg::verif_tap_hold::TAP_HOLD_CLOSURES.lock().unwrap();
    for (a, kind, keys) in reg.iter().rev() {
        if *a == addr {
            return (*kind, keys.clone());
        }
    }
    panic!("tap-hold closure not registered (build with --cfg kanata_verif)");
}

pub fn seq_events(out: &mut String, evs: &[SequenceEvent<'static, KanataCustom>], cu: &mut Customs) {
    write!(out, "{} ", evs.len()).unwrap();
    for e in evs {
        match e {
            SequenceEvent::NoOp => out.push_str("n "),
            SequenceEvent::Press(k) => write!(out, "p {} ", kc(*k)).unwrap(),
            SequenceEvent::Release(k) => write!(out, "r {} ", kc(*k)).unwrap(),
            SequenceEvent::Tap(k) => write!(out, "t {} ", kc(*k)).unwrap(),
            SequenceEvent::Delay { duration } => write!(out, "d {duration} ").unwrap(),
            SequenceEvent::Custom(c) => write!(out, "c {} ", cu.id_of(c)).unwrap(),
            SequenceEvent::Complete => out.push_str("x "),
            _ => panic!("unknown sequence event"),
        }
    }
}

pub fn action(out: &mut String, a: &KAction, cu: &mut Customs) {
    match a {
        Action::NoOp => out.push_str("N "),
        Action::Trans => out.push_str("T "),
        Action::KeyCode(k) => write!(out, "K {} ", kc(*k)).unwrap(),
        Action::MultipleKeyCodes(ks) => {
            write!(out, "MK {} ", ks.len()).unwrap();
            for k in ks.iter() {
                write!(out, "{} ", kc(*k)).unwrap();
            }
        }
        Action::MultipleActions(acs) => {
            write!(out, "MA {} ", acs.len()).unwrap();
            for x in acs.iter() {
                action(out, x, cu);
            }
        }
        Action::Layer(l) => write!(out, "L {l} ").unwrap(),
        Action::DefaultLayer(l) => write!(out, "DL {l} ").unwrap(),
        Action::Sequence { events } => {
            out.push_str("SQ ");
            seq_events(out, events, cu);
        }
        Action::RepeatableSequence { events } => {
            out.push_str("RSQ ");
            seq_events(out, events, cu);
        }
        Action::CancelSequences => out.push_str("CS "),
        Action::ReleaseState(ReleasableState::KeyCode(k)) => write!(out, "RK {} ", kc(*k)).unwrap(),
        Action::ReleaseState(ReleasableState::Layer(l)) => write!(out, "RL {l} ").unwrap(),
        Action::HoldTap(ht) => {
            write!(out, "HT {} ", ht.timeout).unwrap();
            action(out, &ht.hold, cu);
            action(out, &ht.tap, cu);
            action(out, &ht.timeout_action, cu);
            match ht.config {
                HoldTapConfig::Default => out.push_str("D "),
                HoldTapConfig::HoldOnOtherKeyPress => out.push_str("P "),
                HoldTapConfig::PermissiveHold => out.push_str("R "),
                HoldTapConfig::Custom(f) => {
                    let (kind, keys) = closure_info(f);
                    write!(out, "{} {} ", if kind == 0 { "RKS" } else { "EKS" }, keys.len()).unwrap();
                    for k in keys {
                        write!(out, "{k} ").unwrap();
                    }
                }
                _ => panic!("unknown hold-tap config"),
            }
            write!(out, "{} ", ht.tap_hold_interval).unwrap();
        }
        Action::Custom(c) => write!(out, "C {} ", cu.id_of(c)).unwrap(),
        Action::OneShot(os) => {
            out.push_str("OS ");
            action(out, os.action, cu);
            let e = match os.end_config {
                OneShotEndConfig::EndOnFirstPress => 0,
                OneShotEndConfig::EndOnFirstPressOrRepress => 1,
                OneShotEndConfig::EndOnFirstRelease => 2,
                OneShotEndConfig::EndOnFirstReleaseOrRepress => 3,
                _ => panic!("unknown one-shot end config"),
            };
            write!(out, "{} {} ", os.timeout, e).unwrap();
        }
        Action::OneShotIgnoreEventsTicks(t) => write!(out, "OSI {t} ").unwrap(),
        Action::TapDance(td) => {
            write!(out, "TD {} ", td.actions.len()).unwrap();
            for x in td.actions.iter() {
                action(out, x, cu);
            }
            let eager = matches!(td.config, TapDanceConfig::Eager);
            write!(out, "{} {} ", td.timeout, eager as u8).unwrap();
        }
        Action::Chords(g) => {
            write!(out, "CH {} ", g.coords.len()).unwrap();
            for ((x, y), m) in g.coords.iter() {
                write!(out, "{x} {y} {m} ").unwrap();
            }
            write!(out, "{} ", g.chords.len()).unwrap();
            for (m, a2) in g.chords.iter() {
                write!(out, "{m} ").unwrap();
                action(out, a2, cu);
            }
            write!(out, "{} ", g.timeout).unwrap();
        }
        Action::Repeat => out.push_str("RP "),
        Action::Fork(f) => {
            out.push_str("F ");
            action(out, &f.left, cu);
            action(out, &f.right, cu);
            write!(out, "{} ", f.right_triggers.len()).unwrap();
            for k in f.right_triggers.iter() {
                write!(out, "{} ", kc(*k)).unwrap();
            }
        }
        Action::Switch(sw) => {
            write!(out, "SW {} ", sw.cases.len()).unwrap();
            for (ops, a2, brk) in sw.cases.iter() {
                write!(out, "{} ", ops.len()).unwrap();
                for op in ops.iter() {
                    write!(out, "{} ", opcode_raw(op)).unwrap();
                }
                action(out, a2, cu);
                write!(out, "{} ", matches!(brk, BreakOrFallthrough::Break) as u8).unwrap();
            }
        }
        Action::Src => out.push_str("SRC "),
    }
}

pub fn row(out: &mut String, r: &[KAction], cu: &mut Customs) {
    // sparse form: pick the default that covers most cells among NoOp / Trans / KeyCode(0) / KeyCode(index)
    let matches_default = |d: u8, i: usize, a: &KAction| -> bool {
        match (d, a) {
            (0, Action::NoOp) => true,
            (1, Action::Trans) => true,
            (2, Action::KeyCode(k)) => (*k as u16) == 0,
            (3, Action::KeyCode(k)) => (*k as u16) as usize == i,
            _ => false,
        }
    };
    let mut best = (0u8, 0usize);
    for d in 0..4u8 {
        let n = r.iter().enumerate().filter(|(i, a)| matches_default(d, *i, a)).count();
        if n > best.1 {
            best = (d, n);
        }
    }
    let d = best.0;
    let cells: Vec<(usize, &KAction)> = r.iter().enumerate().filter(|(i, a)| !matches_default(d, *i, a)).collect();
    let dname = ["N", "T", "K0", "I"][d as usize];
    write!(out, "ROW {} {} {} ", r.len(), dname, cells.len()).unwrap();
    for (i, a) in cells {
        write!(out, "{i} ").unwrap();
        action(out, a, cu);
    }
    out.push('\n');
}

/// `CHV2 <min-idle> <n>` then one `CH2 <nkeys> k.. <pending> <first-release 0|1> <ndisabled> l.. <action>` per chord (sorted by keys)
pub fn chords_v2(out: &mut String, l: &'static BorrowedKLayout<'static>, min_idle: u16, cu: &mut Customs) {
    let Some(ch) = l.chords_v2.as_ref() else { return };
    let mut all: Vec<&kanata_keyberon::chord::ChordV2<'static, KanataCustom>> = vec![];
    for cfk in ch.chords().mapping.values() {
        for c in cfk.chords.iter() {
            if !all.iter().any(|x| x.participating_keys == c.participating_keys) {
                all.push(*c);
            }
        }
    }
    all.sort_by(|a, b| a.participating_keys.cmp(b.participating_keys));
    writeln!(out, "CHV2 {} {}", min_idle, all.len()).unwrap();
    for c in all {
        write!(out, "CH2 {} ", c.participating_keys.len()).unwrap();
        for k in c.participating_keys {
            write!(out, "{k} ").unwrap();
        }
        write!(
            out,
            "{} {} {} ",
            c.pending_duration,
            (c.release_behaviour == kanata_keyberon::chord::ReleaseBehaviour::OnFirstRelease) as u8,
            c.disabled_layers.len()
        )
        .unwrap();
        for d in c.disabled_layers {
            write!(out, "{d} ").unwrap();
        }
        action(out, c.action, cu);
        out.push('\n');
    }
}

/// Dump of the layout configuration: option line, src_keys row, then two rows per layer.
pub fn layout_cfg(cfg: &Cfg, cu: &mut Customs) -> String {
    let mut out = String::new();
    // SAFETY of the transmute-free access: `b()` only shrinks the lifetime; we need 'static to
    // store custom slices in the table for the duration of the case, during which cfg is alive.
    let l: &'static BorrowedKLayout<'static> = unsafe { std::mem::transmute(cfg.layout.b()) };
    writeln!(
        out,
        "LCFG {} {} {} {} {} {}",
        cfg.options.trans_resolution_behavior_v2 as u8,
        cfg.options.delegate_to_first_layer as u8,
        l.quick_tap_hold_timeout as u8,
        l.oneshot.pause_input_processing_delay,
        l.layers.len(),
        l.chords_v2.is_some() as u8,
    )
    .unwrap();
    row(&mut out, &l.src_keys[..], cu);
    for layer in l.layers.iter() {
        row(&mut out, &layer[0][..], cu);
        row(&mut out, &layer[1][..], cu);
    }
    chords_v2(&mut out, l, cfg.options.chords_v2_min_idle, cu);
    out
}

fn btn_n(b: &kanata_parser::custom_action::Btn) -> u8 {
    use kanata_parser::custom_action::Btn::*;
    match b {
        Left => 0,
        Right => 1,
        Mid => 2,
        Forward => 3,
        Backward => 4,
    }
}
fn wdir(d: &kanata_parser::custom_action::MWheelDirection) -> u8 {
    use kanata_parser::custom_action::MWheelDirection::*;
    match d {
        Up => 0,
        Down => 1,
        Left => 2,
        Right => 3,
    }
}
fn mdir(d: &kanata_parser::custom_action::MoveDirection) -> u8 {
    use kanata_parser::custom_action::MoveDirection::*;
    match d {
        Up => 0,
        Down => 1,
        Left => 2,
        Right => 3,
    }
}
fn fkop(a: &kanata_parser::custom_action::FakeKeyAction) -> u8 {
    use kanata_parser::custom_action::FakeKeyAction::*;
    match a {
        Press => 0,
        Release => 1,
        Tap => 2,
        Toggle => 3,
    }
}
pub fn seq_mode_n(m: kanata_parser::custom_action::SequenceInputMode) -> u8 {
    use kanata_parser::custom_action::SequenceInputMode::*;
    match m {
        HiddenSuppressed => 0,
        HiddenDelayType => 1,
        VisibleBackspaced => 2,
    }
}

pub fn custom_action(out: &mut String, a: &CustomAction) {
    use CustomAction::*;
    match a {
        Unicode(c) => write!(out, "uni {} ", *c as u32).unwrap(),
        Mouse(b) => write!(out, "mo {} ", btn_n(b)).unwrap(),
        MouseTap(b) => write!(out, "mt {} ", btn_n(b)).unwrap(),
        FakeKey { coord, action } => write!(out, "fk {} {} {} ", coord.x, coord.y, fkop(action)).unwrap(),
        FakeKeyOnRelease { coord, action } => write!(out, "fkr {} {} {} ", coord.x, coord.y, fkop(action)).unwrap(),
        FakeKeyOnIdle(f) => write!(out, "fki {} {} {} {} ", f.coord.x, f.coord.y, fkop(&f.action), f.idle_duration).unwrap(),
        FakeKeyHoldForDuration(f) => write!(out, "fkh {} {} {} ", f.coord.x, f.coord.y, f.hold_duration).unwrap(),
        MWheel { direction, interval, distance } => write!(out, "mw {} {} {} ", wdir(direction), interval, distance).unwrap(),
        MWheelNotch { direction } => write!(out, "mwn {} ", wdir(direction)).unwrap(),
        MoveMouse { direction, interval, .. } => write!(out, "mm {} {} ", mdir(direction), interval).unwrap(),
        MoveMouseAccel { direction, interval, .. } => write!(out, "mma {} {} ", mdir(direction), interval).unwrap(),
        MoveMouseSpeed { speed } => write!(out, "mms {speed} ").unwrap(),
        SequenceCancel => out.push_str("sc "),
        SequenceLeader(t, m) => write!(out, "sl {} {} ", t, seq_mode_n(*m)).unwrap(),
        SequenceNoerase(n) => write!(out, "sn {n} ").unwrap(),
        LiveReload => out.push_str("lr "),
        Repeat => out.push_str("rp "),
        CancelMacroOnRelease => out.push_str("cmr "),
        CancelMacroOnNextPress(d) => write!(out, "cmp {d} ").unwrap(),
        DynamicMacroRecord(i) => write!(out, "dr {i} ").unwrap(),
        DynamicMacroRecordStop(n) => write!(out, "ds {n} ").unwrap(),
        DynamicMacroPlay(i) => write!(out, "dp {i} ").unwrap(),
        SendArbitraryCode(c) => write!(out, "ac {c} ").unwrap(),
        CapsWord(cfg) => {
            write!(out, "cw {} ", cfg.keys_to_capitalize.len()).unwrap();
            for k in cfg.keys_to_capitalize.iter() {
                write!(out, "{} ", *k as u16).unwrap();
            }
            write!(out, "{} ", cfg.keys_nonterminal.len()).unwrap();
            for k in cfg.keys_nonterminal.iter() {
                write!(out, "{} ", *k as u16).unwrap();
            }
            let toggle = matches!(cfg.repress_behaviour, kanata_parser::custom_action::CapsWordRepressBehaviour::Toggle);
            write!(out, "{} {} ", cfg.timeout, toggle as u8).unwrap();
        }
        Unmodded { keys, mods } => {
            write!(out, "um {} ", keys.len()).unwrap();
            for k in keys.iter() {
                write!(out, "{} ", *k as u16).unwrap();
            }
            write!(out, "{} ", mods.bits()).unwrap();
        }
        Unshifted { keys } => {
            write!(out, "us {} ", keys.len()).unwrap();
            for k in keys.iter() {
                write!(out, "{} ", *k as u16).unwrap();
            }
        }
        ReverseReleaseOrder => out.push_str("rro "),
        _ => out.push_str("op "),
    }
}

/// Dump for the kanata-level model: the layout configuration followed by kanata-level settings.
pub fn kanata_cfg(k: &kanata_state_machine::Kanata, opts: &CfgOptions, cu: &mut Customs) -> String {
    let mut out = String::new();
    let l: &'static BorrowedKLayout<'static> = unsafe { std::mem::transmute(k.layout.b()) };
    out.push_str(&layout_of(l, opts.chords_v2_min_idle, cu));
    writeln!(
        out,
        "KCFG {} {} {} {} {} {} {} {} {}",
        opts.override_release_on_activation as u8,
        k.sequence_always_on as u8,
        seq_mode_n(k.sequence_input_mode),
        k.sequence_timeout,
        k.sequence_backtrack_modcancel as u8,
        opts.dynamic_macro_max_presses,
        matches!(opts.dynamic_macro_replay_delay_behaviour, ReplayDelayBehaviour::Recorded) as u8,
        k.switch_max_key_timing,
        opts.movemouse_smooth_diagonals as u8,
    )
    .unwrap();
    // key outputs, per layer, sorted by physical key
    for (li, m) in k.key_outputs.iter().enumerate() {
        let mut ks: Vec<_> = m.iter().collect();
        ks.sort_by_key(|(k, _)| u16::from(**k));
        write!(out, "KEYOUT {} {} ", li, ks.len()).unwrap();
        for (k, outs) in ks {
            write!(out, "{} {} ", u16::from(*k), outs.len()).unwrap();
            for o in outs.iter() {
                write!(out, "{} ", u16::from(*o)).unwrap();
            }
        }
        out.push('\n');
    }
    let ovs = k.overrides.verif_dump();
    write!(out, "OVERRIDES {} ", ovs.len()).unwrap();
    for (inm, onm, im, om) in ovs {
        write!(out, "{} {} {} ", inm, onm, im.len()).unwrap();
        for x in im {
            write!(out, "{x} ").unwrap();
        }
        write!(out, "{} ", om.len()).unwrap();
        for x in om {
            write!(out, "{x} ").unwrap();
        }
    }
    out.push('\n');
    let seqs = k.sequences.verif_entries();
    write!(out, "SEQS {} ", seqs.len()).unwrap();
    for (key, (x, y)) in seqs {
        write!(out, "{} ", key.len()).unwrap();
        for v in key {
            write!(out, "{v} ").unwrap();
        }
        write!(out, "{x} {y} ").unwrap();
    }
    out.push('\n');
    // custom action table (ids were assigned while serialising the layout above; complete it with
    // any custom list first reached from here)
    let mut i = 0;
    let mut culines = String::new();
    while i < cu.table.len() {
        let acs = cu.table[i].1;
        write!(culines, "CU {} {} ", i, acs.len()).unwrap();
        for a in acs.iter() {
            custom_action(&mut culines, a);
        }
        culines.push('\n');
        i += 1;
    }
    writeln!(out, "CUSTOMS {}", cu.table.len()).unwrap();
    out.push_str(&culines);
    out
}

pub fn layout_of(l: &'static BorrowedKLayout<'static>, min_idle: u16, cu: &mut Customs) -> String {
    let mut out = String::new();
    writeln!(
        out,
        "LCFG {} {} {} {} {} {}",
        l.verif_trans_settings().0 as u8,
        l.verif_trans_settings().1 as u8,
        l.quick_tap_hold_timeout as u8,
        l.oneshot.pause_input_processing_delay,
        l.layers.len(),
        l.chords_v2.is_some() as u8,
    )
    .unwrap();
    row(&mut out, &l.src_keys[..], cu);
    for layer in l.layers.iter() {
        row(&mut out, &layer[0][..], cu);
        row(&mut out, &layer[1][..], cu);
    }
    chords_v2(&mut out, l, min_idle, cu);
    out
}
