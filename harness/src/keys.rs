//! C11: dump of the compiled key tables, in the same line format as the model driver prints.
use kanata_keyberon::key_code::KeyCode;
use kanata_parser::keys::{str_to_oscode, OsCode};
use std::io::BufRead;

pub fn run(_args: &[String]) {
    // F <c>: from_u16 and the conversions; N <hex utf8 name>: str_to_oscode
    for line in std::io::stdin().lock().lines() {
        let line = line.unwrap();
        let mut it = line.split_whitespace();
        match it.next() {
            Some("F") => {
                let c: u16 = it.next().unwrap().parse().unwrap();
                match OsCode::from_u16(c) {
                    None => println!("F {c} None"),
                    Some(osc) => {
                        let d = osc.as_u16();
                        let kc: KeyCode = osc.into();
                        let kd = kc as u16;
                        let back: OsCode = kc.into();
                        println!("F {c} {osc:?} {d} {kc:?} {kd} {back:?}");
                    }
                }
            }
            Some("N") => {
                let hex = it.next().unwrap_or("");
                let bytes: Vec<u8> = (0..hex.len() / 2)
                    .map(|i| u8::from_str_radix(&hex[2 * i..2 * i + 2], 16).unwrap())
                    .collect();
                let name = String::from_utf8(bytes).unwrap();
                match str_to_oscode(&name) {
                    None => println!("N {hex} None"),
                    Some(osc) => println!("N {hex} {osc:?}"),
                }
            }
            _ => {}
        }
    }
}
