//! Kanata-level simulation: the real `Kanata` (simulated_output) driven event by event and tick by
//! tick; prints the OS events of each tick in canonical numeric form.
//!
//! History tokens: `d<code>` press, `u<code>` release, `r<code>` OS repeat, `T<code>` tap event,
//! `t<n>` n ticks, `q` query (idle / can-block flags), `v<op>,<x>,<y>` direct fake-key call
//! (op: p press, r release, t tap, g toggle).
use crate::cases::*;
use crate::dump;
use kanata_keyberon::key_code::KeyCode;
use kanata_parser::keys::OsCode;
use kanata_state_machine::oskbd::{KeyEvent, KeyValue};
use kanata_state_machine::Kanata;
use std::collections::HashMap;
use std::fmt::Write;

pub fn keyname_table() -> HashMap<String, u16> {
    let mut m = HashMap::new();
    for c in 0..1024u16 {
        if let Some(osc) = OsCode::from_u16(c) {
            let kc: KeyCode = osc.into();
            m.insert(format!("{kc:?}"), c);
        }
    }
    m
}

/// "out:↓A" -> "d30"; mouse/scroll/unicode/code events to short canonical tokens.
pub fn canon_event(ev: &str, names: &HashMap<String, u16>) -> Option<String> {
    if ev.starts_with("t:") {
        return None;
    }
    if let Some(rest) = ev.strip_prefix("out:") {
        let (dir, name) = if let Some(n) = rest.strip_prefix('↓') {
            ("d", n)
        } else if let Some(n) = rest.strip_prefix('↑') {
            ("u", n)
        } else {
            ("?", rest)
        };
        return Some(match names.get(name) {
            Some(c) => format!("{dir}{c}"),
            None => format!("{dir}?{name}"),
        });
    }
    if let Some(rest) = ev.strip_prefix("out🖰:") {
        let btn = |n: &str| match n {
            "Left" => 0,
            "Right" => 1,
            "Mid" => 2,
            "Forward" => 3,
            "Backward" => 4,
            _ => 9,
        };
        if let Some(n) = rest.strip_prefix('↓') {
            return Some(format!("bd{}", btn(n)));
        }
        if let Some(n) = rest.strip_prefix('↑') {
            return Some(format!("bu{}", btn(n)));
        }
        if let Some(m) = rest.strip_prefix("move ") {
            let d = m.split(',').next().unwrap_or("?");
            let dn = match d { "Up" => 0, "Down" => 1, "Left" => 2, "Right" => 3, _ => 9 };
            return Some(format!("mv{dn}"));
        }
    }
    if let Some(rest) = ev.strip_prefix("scroll:") {
        let mut it = rest.split(',');
        let d = it.next().unwrap_or("?");
        let dist = it.next().unwrap_or("?");
        let dn = match d { "Up" => 0, "Down" => 1, "Left" => 2, "Right" => 3, _ => 9 };
        return Some(format!("sc{dn},{dist}"));
    }
    if let Some(rest) = ev.strip_prefix("outU:") {
        return Some(format!("U{}", rest.chars().next().map(|c| c as u32).unwrap_or(0)));
    }
    if let Some(rest) = ev.strip_prefix("out-code:") {
        let mut it = rest.split(';');
        let c = it.next().unwrap_or("?");
        let v = it.next().unwrap_or("?");
        return Some(format!("C{},{}", c, if v == "Press" { "p" } else { "r" }));
    }
    Some(ev.replace(' ', "_"))
}

pub fn oscode(code: u16) -> Option<OsCode> {
    OsCode::from_u16(code)
}

fn zout_tok(o: &kanata_parser::cfg::ZchOutput) -> String {
    use kanata_parser::cfg::ZchOutput::*;
    let (kind, ne, osc) = match *o {
        Lowercase(c) => (0, 0, c),
        Uppercase(c) => (1, 0, c),
        AltGr(c) => (2, 0, c),
        ShiftAltGr(c) => (3, 0, c),
        NoEraseLowercase(c) => (0, 1, c),
        NoEraseUppercase(c) => (1, 1, c),
        NoEraseAltGr(c) => (2, 1, c),
        NoEraseShiftAltGr(c) => (3, 1, c),
    };
    format!("{} {} {}", kind, ne, osc.as_u16())
}

fn ztree(ch: &kanata_parser::cfg::ZchPossibleChords, out: &mut String) {
    let es = ch.0.verif_entries();
    out.push_str(&format!("{} ", es.len()));
    for (k, v) in es {
        out.push_str(&format!("{} ", k.len()));
        for x in &k {
            out.push_str(&format!("{} ", x));
        }
        out.push_str(&format!("{} ", v.zch_output.len()));
        for o in v.zch_output.iter() {
            out.push_str(&zout_tok(o));
            out.push(' ');
        }
        match &v.zch_followups {
            None => out.push_str("0 "),
            Some(f) => {
                out.push_str("1 ");
                ztree(&f.lock(), out);
            }
        }
    }
}

/// `ZIPPY <wait-enable> <deadline> <smart-space 0|1|2> <npunct> (<kind> <noerase> <osc>)*` + `ZTREE ...` (pre-order)
fn dump_zippy(z: &Option<(kanata_parser::cfg::ZchPossibleChords, kanata_parser::cfg::ZchConfig)>) -> String {
    match z {
        None => "ZIPPY none\n".to_string(),
        Some((chords, cfg)) => {
            use kanata_parser::cfg::ZchSmartSpaceCfg::*;
            let ss = match cfg.zch_cfg_smart_space {
                Disabled => 0,
                AddSpaceOnly => 1,
                Full => 2,
            };
            let mut p: Vec<String> = cfg.zch_cfg_smart_space_punctuation.iter().map(zout_tok).collect();
            p.sort();
            let mut s = format!("ZIPPY {} {} {} {} {}\n", cfg.zch_cfg_ticks_wait_enable, cfg.zch_cfg_ticks_chord_deadline, ss, p.len(), p.join(" "));
            s.push_str("ZTREE ");
            ztree(chords, &mut s);
            s.push('\n');
            s
        }
    }
}

pub fn run_case(case: &Case, names: &HashMap<String, u16>) {
    use std::io::Write as _;
    let mut out = String::new();
    writeln!(out, "CASE {}", case.id).unwrap();
    // options that Kanata keeps private are read from a separate parse of the same text
    let (opts, zippy) = match std::panic::catch_unwind(|| kanata_parser::cfg::new_from_str(&case.cfg, case.files.clone())) {
        Ok(Ok(c)) => (Some(c.options), Some(dump_zippy(&c.zippy))),
        _ => (None, None),
    };
    let parsed = std::panic::catch_unwind(|| Kanata::new_from_str(&case.cfg, case.files.clone()));
    let mut k = match parsed {
        Err(_) => {
            writeln!(out, "PARSE-PANIC").unwrap();
            print!("{out}");
            return;
        }
        Ok(Err(e)) => {
            let msg = format!("{e:?}").replace('\n', " ");
            let msg = strip_ansi(&msg);
            writeln!(out, "PARSE-ERR {}", msg.chars().take(160).collect::<String>()).unwrap();
            print!("{out}");
            return;
        }
        Ok(Ok(k)) => k,
    };
    let mut cu = dump::Customs::default();
    out.push_str("DUMP-BEGIN\n");
    out.push_str(&dump::kanata_cfg(&k, opts.as_ref().expect("options"), &mut cu));
    out.push_str(zippy.as_deref().unwrap_or("ZIPPY none\n"));
    out.push_str("DUMP-END\n");
    writeln!(out, "H {}", case.hist.join(" ")).unwrap();
    out.push_str("TRACE-BEGIN\n");
    {
        let stdout = std::io::stdout();
        let mut lk = stdout.lock();
        lk.write_all(out.as_bytes()).unwrap();
        lk.flush().unwrap();
        out.clear();
    }
    let mut tick: u64 = 0;
    let mut o = String::new();
    kanata_keyberon::layout::verif::LOST_CUSTOM_RELEASES.store(0, std::sync::atomic::Ordering::Relaxed);
    // the tick in which a custom Release event was discarded for the first time (finding custom-release-lost)
    let first_lost = std::cell::Cell::new(-1i64);
    let res = std::panic::catch_unwind(std::panic::AssertUnwindSafe(|| {
        let mut pending: Vec<String> = vec![];
        // loop mode (token B0 / B1): like the processing loop, ask can_block_update_idle_waiting before every
        // millisecond; B1 honours the answer (a blocked millisecond runs no tick), B0 ticks regardless
        let mut loop_mode: Option<bool> = None;
        // one iteration of the processing loop = idle bookkeeping, the input events that arrived, one millisecond:
        // the first event after a millisecond opens the iteration (with the bookkeeping call), the next `t` millisecond closes it
        let mut iter_open = false;
        for tok in case.hist.iter() {
            let (kind, rest) = tok.split_at(1);
            match kind {
                "B" => {
                    loop_mode = Some(rest == "1");
                }
                "d" | "u" | "r" | "T" => {
                    let code: u16 = rest.parse().unwrap();
                    let Some(osc) = oscode(code) else {
                        continue;
                    };
                    let value = match kind {
                        "d" => KeyValue::Press,
                        "u" => KeyValue::Release,
                        "r" => KeyValue::Repeat,
                        _ => KeyValue::Tap,
                    };
                    if loop_mode.is_some() && !iter_open {
                        let _ = k.can_block_update_idle_waiting(1);
                        iter_open = true;
                    }
                    k.handle_input_event(&KeyEvent { code: osc, value }).expect("handle_input_event");
                    // repeat events are written immediately: report them on their own line
                    let mut rep: Vec<String> = vec![];
                    for ev in k.kbd_out.outputs.events.drain(..) {
                        if let Some(c) = canon_event(&ev, names) {
                            rep.push(c);
                        }
                    }
                    if kind == "r" {
                        writeln!(o, "R@{} {} : {}", tick, code, rep.join(" ")).unwrap();
                    } else {
                        pending.extend(rep);
                    }
                }
                "v" => {
                    let parts: Vec<&str> = rest.split(',').collect();
                    let op = match parts[0] {
                        "p" => kanata_parser::custom_action::FakeKeyAction::Press,
                        "r" => kanata_parser::custom_action::FakeKeyAction::Release,
                        "t" => kanata_parser::custom_action::FakeKeyAction::Tap,
                        _ => kanata_parser::custom_action::FakeKeyAction::Toggle,
                    };
                    let x: u8 = parts[1].parse().unwrap();
                    let y: u16 = parts[2].parse().unwrap();
                    kanata_state_machine::handle_fakekey_action(op, k.layout.bm(), x, y);
                }
                "q" => {
                    let idle = k.is_idle();
                    let block = k.can_block_update_idle_waiting(1);
                    writeln!(o, "Q@{} idle={} block={}", tick, idle as u8, block as u8).unwrap();
                    dump_macros(&k, tick, &mut o);
                }
                "t" => {
                    let n: u64 = rest.parse().unwrap();
                    for _ in 0..n {
                        if let Some(honour) = loop_mode {
                            if iter_open {
                                iter_open = false;
                            } else {
                                let can_block = k.can_block_update_idle_waiting(1);
                                if can_block && honour {
                                    tick += 1;
                                    continue;
                                }
                            }
                        }
                        k.tick_ms(1, &None).expect("tick_ms");
                        tick += 1;
                        if first_lost.get() < 0
                            && kanata_keyberon::layout::verif::LOST_CUSTOM_RELEASES.load(std::sync::atomic::Ordering::Relaxed) > 0
                        {
                            first_lost.set(tick as i64);
                        }
                        for ev in k.kbd_out.outputs.events.drain(..) {
                            if let Some(c) = canon_event(&ev, names) {
                                pending.push(c);
                            }
                        }
                        if !pending.is_empty() {
                            writeln!(o, "@{} {}", tick, pending.join(" ")).unwrap();
                            pending.clear();
                        }
                    }
                }
                "m" => {
                    // one iteration of the processing loop that covers n milliseconds (the loop was late)
                    let n: u16 = rest.parse().unwrap();
                    let mut blocked = false;
                    if let Some(honour) = loop_mode {
                        if iter_open {
                            iter_open = false;
                        } else {
                            let can_block = k.can_block_update_idle_waiting(n);
                            blocked = can_block && honour;
                        }
                    }
                    tick += n as u64;
                    if !blocked {
                        k.tick_ms(n as u128, &None).expect("tick_ms");
                        for ev in k.kbd_out.outputs.events.drain(..) {
                            if let Some(c) = canon_event(&ev, names) {
                                pending.push(c);
                            }
                        }
                        if !pending.is_empty() {
                            writeln!(o, "@{} {}", tick, pending.join(" ")).unwrap();
                            pending.clear();
                        }
                    }
                }
                _ => panic!("bad history token {tok}"),
            }
        }
        if !pending.is_empty() {
            writeln!(o, "@{}+ {}", tick, pending.join(" ")).unwrap();
        }
        dump_macros(&k, tick, &mut o);
        let prev: Vec<String> = k.prev_keys.iter().map(|kc| (*kc as u16).to_string()).collect();
        let l = k.layout.b();
        writeln!(
            o,
            "END tick={} down=[{}] nstates={} layer={} idle={} scroll={} move={} rec={}",
            tick,
            prev.join(" "),
            l.states.len(),
            l.current_layer(),
            k.is_idle() as u8,
            (k.scroll_state.is_some() as u8) + (k.hscroll_state.is_some() as u8),
            (k.move_mouse_state_vertical.is_some() as u8) + (k.move_mouse_state_horizontal.is_some() as u8),
            k.dynamic_macro_record_state.is_some() as u8,
        )
        .unwrap();
    }));
    match res {
        Ok(()) => out.push_str(&o),
        Err(e) => {
            out.push_str(&o);
            let msg = if let Some(s) = e.downcast_ref::<String>() {
                s.clone()
            } else if let Some(s) = e.downcast_ref::<&str>() {
                s.to_string()
            } else {
                "?".to_string()
            };
            writeln!(out, "PANIC tick={} {}", tick, msg.replace('\n', " ")).unwrap();
        }
    }
    writeln!(
        out,
        "INFO lostcr={} first={}",
        kanata_keyberon::layout::verif::LOST_CUSTOM_RELEASES.load(std::sync::atomic::Ordering::Relaxed),
        first_lost.get()
    )
    .unwrap();
    out.push_str("TRACE-END\n");
    let stdout = std::io::stdout();
    let mut lk = stdout.lock();
    lk.write_all(out.as_bytes()).unwrap();
    lk.flush().unwrap();
}

fn strip_ansi(s: &str) -> String {
    let mut out = String::new();
    let mut it = s.chars().peekable();
    while let Some(c) = it.next() {
        if c == '\u{1b}' {
            for d in it.by_ref() {
                if d.is_ascii_alphabetic() {
                    break;
                }
            }
        } else {
            out.push(c);
        }
    }
    out
}

pub fn run(args: &[String]) {
    std::panic::set_hook(Box::new(|_| {}));
    let cases = read_cases(&args[0]);
    let start: usize = args.get(1).map(|s| s.parse().unwrap()).unwrap_or(0);
    let names = keyname_table();
    for case in cases.iter().skip(start) {
        crate::wd::case_begin();
        run_case(case, &names);
    }
}


fn dump_macros(k: &kanata_state_machine::Kanata, tick: u64, o: &mut String) {
    use std::fmt::Write as _;
    // the saved dynamic macros (item list with recorded delays), by id
    let mut ids: Vec<u16> = k.dynamic_macros.keys().copied().collect();
    ids.sort();
    for id in ids {
        // DynamicMacroItem lives in a private module: read it through its Debug form,
        // `Press((KEY_A, 3))` / `Release((KEY_A, 0))` / `EndMacro(1)`
        let items: Vec<String> = k.dynamic_macros[&id]
            .iter()
            .map(|it| {
                let d = format!("{:?}", it);
                let inner: String = d.chars().filter(|c| !matches!(c, '(' | ')')).collect();
                if let Some(r) = inner.strip_prefix("Press") {
                    let (n, dl) = r.split_once(", ").unwrap();
                    format!("P{},{}", osc_by_name(n), dl)
                } else if let Some(r) = inner.strip_prefix("Release") {
                    let (n, dl) = r.split_once(", ").unwrap();
                    format!("R{},{}", osc_by_name(n), dl)
                } else {
                    format!("E{}", inner.trim_start_matches("EndMacro"))
                }
            })
            .collect();
        writeln!(o, "DM@{} {} : {}", tick, id, items.join(" ")).unwrap();
    }
}

fn osc_by_name(name: &str) -> u16 {
    for c in 0..1024u16 {
        if let Some(o) = oscode(c) {
            if format!("{:?}", o) == name {
                return c;
            }
        }
    }
    9999
}
