//! Layout-level simulation: parse the case's configuration with the real parser, dump it, then
//! drive the real keyberon `Layout` (event / tick) and print one line per tick whose observable
//! (key list or custom event) is non-trivial.
//!
//! History tokens: `p<x>,<y>` press at coordinate, `r<x>,<y>` release, `t<n>` n ticks.
use crate::cases::*;
use crate::dump;
use kanata_keyberon::layout::{CustomEvent, Event, State};
use std::fmt::Write;

fn fmt_state(s: &State<'static, kanata_parser::cfg::KanataCustom>, cu: &dump::Customs) -> String {
    match s {
        State::NormalKey { keycode, coord, flags } => {
            format!("NK({},{},{},{})", *keycode as u16, coord.0, coord.1, flags.0)
        }
        State::LayerModifier { value, coord } => format!("LM({},{},{})", value, coord.0, coord.1),
        State::Custom { value, coord } => format!(
            "CU({},{},{})",
            cu.lookup(value).map(|i| i as i64).unwrap_or(-1),
            coord.0,
            coord.1
        ),
        State::FakeKey { keycode } => format!("FK({})", *keycode as u16),
        State::RepeatingSequence { coord, .. } => format!("RS({},{})", coord.0, coord.1),
        State::SeqCustomPending(v) => format!("SP({})", cu.lookup(v).map(|i| i as i64).unwrap_or(-1)),
        State::SeqCustomActive(v) => format!("SA({})", cu.lookup(v).map(|i| i as i64).unwrap_or(-1)),
        State::Tombstone => "TS".to_string(),
    }
}

pub fn run_case(case: &Case, out: &mut String) {
    writeln!(out, "CASE {}", case.id).unwrap();
    let parsed = std::panic::catch_unwind(|| {
        kanata_parser::cfg::new_from_str(&case.cfg, case.files.clone())
    });
    let mut cfg = match parsed {
        Err(_) => {
            writeln!(out, "PARSE-PANIC").unwrap();
            return;
        }
        Ok(Err(e)) => {
            let msg = e.help().map(|h| h.to_string()).unwrap_or_else(|| format!("{e}")).replace('\n', " ");
            writeln!(out, "PARSE-ERR {}", msg.chars().take(100).collect::<String>()).unwrap();
            return;
        }
        Ok(Ok(c)) => c,
    };
    let mut cu = dump::Customs::default();
    out.push_str("DUMP-BEGIN\n");
    out.push_str(&dump::layout_cfg(&cfg, &mut cu));
    out.push_str("DUMP-END\n");
    writeln!(out, "H {}", case.hist.join(" ")).unwrap();
    out.push_str("TRACE-BEGIN\n");
    {
        // flush what we have: if the history aborts the process (stack overflow) the dump survives
        use std::io::Write as _;
        let stdout = std::io::stdout();
        let mut lk = stdout.lock();
        lk.write_all(out.as_bytes()).unwrap();
        lk.flush().unwrap();
        out.clear();
    }
    let mut tick: u64 = 0;
    let mut last_keys: Vec<u16> = vec![];
    let mut o = String::new();
    let res = std::panic::catch_unwind(std::panic::AssertUnwindSafe(|| {
        let layout: &mut kanata_parser::cfg::BorrowedKLayout<'static> =
            unsafe { std::mem::transmute(cfg.layout.bm()) };
        for tok in case.hist.iter() {
            let (kind, rest) = tok.split_at(1);
            match kind {
                "p" | "r" => {
                    let (x, y) = rest.split_once(',').expect("coord");
                    let (x, y): (u8, u16) = (x.parse().unwrap(), y.parse().unwrap());
                    layout.event(if kind == "p" { Event::Press(x, y) } else { Event::Release(x, y) });
                }
                "t" => {
                    let n: u64 = rest.parse().unwrap();
                    for _ in 0..n {
                        let ce = layout.tick();
                        tick += 1;
                        let keys: Vec<u16> = layout.keycodes().map(|k| k as u16).collect();
                        let ces = match ce {
                            CustomEvent::NoEvent => String::new(),
                            CustomEvent::Press(v) => format!(" C p {}", cu.lookup(v).map(|i| i as i64).unwrap_or(-1)),
                            CustomEvent::Release(v) => format!(" C r {}", cu.lookup(v).map(|i| i as i64).unwrap_or(-1)),
                        };
                        if keys != last_keys || !ces.is_empty() {
                            let ks: Vec<String> = keys.iter().map(|k| k.to_string()).collect();
                            writeln!(o, "@{} K {}{}", tick, ks.join(" "), ces).unwrap();
                            last_keys = keys;
                        }
                    }
                }
                _ => panic!("bad history token {tok}"),
            }
        }
        let sts: Vec<String> = layout.states.iter().map(|s| fmt_state(s, &cu)).collect();
        writeln!(
            o,
            "END tick={} states=[{}] layer={} default={} q={} waiting={} extra={} os={} seqs={} aq={}",
            tick,
            sts.join(" "),
            layout.current_layer(),
            layout.default_layer,
            layout.queue.len(),
            layout.waiting.is_some() as u8,
            layout.extra_waiting.len(),
            layout.oneshot.keys.len(),
            layout.active_sequences.len(),
            layout.action_queue.len(),
        )
        .unwrap();
    }));
    match res {
        Ok(()) => out.push_str(&o),
        Err(e) => {
            out.push_str(&o);
            let msg = if let Some(s) = e.downcast_ref::<String>() {
                s.clone()
            } else if let Some(s) = e.downcast_ref::<&str>() {
                s.to_string()
            } else {
                "?".to_string()
            };
            writeln!(out, "PANIC tick={} {}", tick, msg.replace('\n', " ")).unwrap();
        }
    }
    out.push_str("TRACE-END\n");
}

pub fn run(args: &[String]) {
    std::panic::set_hook(Box::new(|_| {}));
    let cases = read_cases(&args[0]);
    let start: usize = args.get(1).map(|s| s.parse().unwrap()).unwrap_or(0);
    use std::io::Write as _;
    let stdout = std::io::stdout();
    for case in cases.iter().skip(start) {
        crate::wd::case_begin();
        let mut out = String::new();
        run_case(case, &mut out);
        let mut lk = stdout.lock();
        lk.write_all(out.as_bytes()).unwrap();
        lk.flush().unwrap();
    }
}
