//! kvharness: runs the real kanata crates (built from /repo's working tree) on case files and
//! prints canonical traces that are compared with the extracted Coq model.
mod cases;
mod dump;
mod keys;
mod ksim;
mod lsim;
mod ovr;
mod pinfo;
mod ptot;
mod rsim;
mod sx;
mod tmpl;
mod wd;
mod swev;

fn main() {
    let args: Vec<String> = std::env::args().collect();
    if args.len() < 2 {
        eprintln!("usage: kvharness <keys|lsim> [args]");
        std::process::exit(2);
    }
    match args[1].as_str() {
        "keys" => keys::run(&args[2..]),
        "lsim" => lsim::run(&args[2..]),
        "ksim" => ksim::run(&args[2..]),
        "pinfo" => pinfo::run(&args[2..]),
        "swev" => swev::run(&args[2..]),
        "ovr" => ovr::run(&args[2..]),
        "ptot" => ptot::run(&args[2..]),
        "sx" => sx::run(&args[2..]),
        "rsim" => rsim::run(&args[2..]),
        "tmpl" => tmpl::run(&args[2..]),
        other => {
            eprintln!("unknown subcommand {other}");
            std::process::exit(2);
        }
    }
}
