fn main() { println!("kvharness"); }
