//! C13: the real `Overrides::override_keys` on explicit key lists.
//! H tokens: key codes, lists separated by `|`.
use crate::cases::*;
use kanata_keyberon::key_code::KeyCode;
use kanata_parser::cfg::OverrideStates;
use kanata_parser::keys::OsCode;
use std::fmt::Write;

pub fn run(args: &[String]) {
    std::panic::set_hook(Box::new(|_| {}));
    let cases = read_cases(&args[0]);
    let start: usize = args.get(1).map(|s| s.parse().unwrap()).unwrap_or(0);
    for case in cases.iter().skip(start) {
        crate::wd::case_begin();
        println!("CASE {}", case.id);
        let parsed = std::panic::catch_unwind(|| kanata_parser::cfg::new_from_str(&case.cfg, case.files.clone()));
        let cfg = match parsed {
            Err(_) => {
                println!("PARSE-PANIC");
                continue;
            }
            Ok(Err(e)) => {
                let msg = e.help().map(|h| h.to_string()).unwrap_or_default().replace('\n', " ");
                println!("PARSE-ERR {}", msg.chars().take(120).collect::<String>());
                continue;
            }
            Ok(Ok(c)) => c,
        };
        println!("DUMP-BEGIN");
        let ovs = cfg.overrides.verif_dump();
        let mut out = String::new();
        write!(out, "OVERRIDES {} ", ovs.len()).unwrap();
        for (inm, onm, im, om) in ovs {
            write!(out, "{} {} {} ", inm, onm, im.len()).unwrap();
            for x in im {
                write!(out, "{x} ").unwrap();
            }
            write!(out, "{} ", om.len()).unwrap();
            for x in om {
                write!(out, "{x} ").unwrap();
            }
        }
        println!("{out}");
        println!("DUMP-END");
        println!("H {}", case.hist.join(" "));
        println!("TRACE-BEGIN");
        let mut states = OverrideStates::new();
        for (i, lst) in case.hist.join(" ").split('|').enumerate() {
            let codes: Vec<u16> = lst.split_whitespace().map(|t| t.parse().unwrap()).collect();
            let mut kcs: Vec<KeyCode> = codes.iter().map(|c| OsCode::from_u16(*c).expect("code").into()).collect();
            cfg.overrides.override_keys(&mut kcs, &mut states);
            let o: Vec<String> = kcs.iter().map(|k| (*k as u16).to_string()).collect();
            let r: Vec<String> = states.removed_oscs().map(|o| o.as_u16().to_string()).collect();
            println!("OV {} : {} ; {}", i, o.join(" "), r.join(" "));
        }
        println!("TRACE-END");
    }
}
