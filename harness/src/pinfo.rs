//! Parser-level information about a configuration: mapped keys (C11), later key outputs etc.
use crate::cases::*;

pub fn run(args: &[String]) {
    std::panic::set_hook(Box::new(|_| {}));
    let cases = read_cases(&args[0]);
    let start: usize = args.get(1).map(|s| s.parse().unwrap()).unwrap_or(0);
    for case in cases.iter().skip(start) {
        crate::wd::case_begin();
        println!("CASE {}", case.id);
        let parsed = std::panic::catch_unwind(|| kanata_parser::cfg::new_from_str(&case.cfg, case.files.clone()));
        match parsed {
            Err(_) => println!("PARSE-PANIC"),
            Ok(Err(e)) => {
                let msg = e.help().map(|h| h.to_string()).unwrap_or_default().replace('\n', " ");
                println!("H {}", case.hist.join(" "));
                println!("TRACE-BEGIN");
                println!("REJECTED");
                println!("INFO {}", msg.chars().take(100).collect::<String>());
                println!("TRACE-END");
            }
            Ok(Ok(cfg)) => {
                println!("H {}", case.hist.join(" "));
                println!("TRACE-BEGIN");
                let mut mk: Vec<u16> = cfg.mapped_keys.iter().map(|o| o.as_u16()).collect();
                mk.sort();
                let s: Vec<String> = mk.iter().map(|c| c.to_string()).collect();
                let want_seqs = case.hist.iter().any(|t| t == "DEF" || t == "SEQS");
                if !want_seqs {
                    println!("MAPPED {}", s.join(" "));
                    // which input devices the Linux back end will grab when the configuration does not say
                    println!("DETECT {:?}", cfg.options.linux_opts.linux_device_detect_mode);
                }
                let mut seqs: Vec<String> = cfg
                    .sequences
                    .verif_entries()
                    .into_iter()
                    .map(|(k, (x, y))| {
                        let ks: Vec<String> = k.iter().map(|v| v.to_string()).collect();
                        format!("{}>{},{}", ks.join("."), x, y)
                    })
                    .collect();
                seqs.sort();
                if want_seqs {
                    println!("SEQS {}", seqs.join(" "));
                }
                println!("TRACE-END");
            }
        }
    }
}
