//! Parser-level information about a configuration: mapped keys (C11), later key outputs etc.
use crate::cases::*;

pub fn run(args: &[String]) {
    std::panic::set_hook(Box::new(|_| {}));
    let cases = read_cases(&args[0]);
    let start: usize = args.get(1).map(|s| s.parse().unwrap()).unwrap_or(0);
    for case in cases.iter().skip(start) {
        println!("CASE {}", case.id);
        let parsed = std::panic::catch_unwind(|| kanata_parser::cfg::new_from_str(&case.cfg, case.files.clone()));
        match parsed {
            Err(_) => println!("PARSE-PANIC"),
            Ok(Err(e)) => {
                let msg = e.help().map(|h| h.to_string()).unwrap_or_default().replace('\n', " ");
                println!("PARSE-ERR {}", msg.chars().take(120).collect::<String>());
            }
            Ok(Ok(cfg)) => {
                println!("TRACE-BEGIN");
                let mut mk: Vec<u16> = cfg.mapped_keys.iter().map(|o| o.as_u16()).collect();
                mk.sort();
                let s: Vec<String> = mk.iter().map(|c| c.to_string()).collect();
                println!("MAPPED {}", s.join(" "));
                println!("TRACE-END");
            }
        }
    }
}
