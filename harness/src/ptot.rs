//! C03: configuration parsing is total.  Each case's text is given hex-encoded in the H tokens
//! (`X <hex>` main file, `F <name-hex> <hex>` includable files); the real parser runs under
//! catch_unwind; the diagnostic is rendered; the error span is checked against the file it names.
use crate::cases::*;
use std::collections::HashMap as StdHashMap;

fn unhex(h: &str) -> Vec<u8> {
    (0..h.len() / 2).map(|i| u8::from_str_radix(&h[2 * i..2 * i + 2], 16).unwrap()).collect()
}

pub fn run_case(case: &Case) {
    println!("CASE {}", case.id);
    println!("H {}", case.hist.join(" "));
    println!("TRACE-BEGIN");
    let mut text = String::new();
    let mut files: rustc_hash::FxHashMap<String, String> = Default::default();
    let mut i = 0;
    while i < case.hist.len() {
        match case.hist[i].as_str() {
            "X" => {
                text = String::from_utf8(unhex(&case.hist[i + 1])).expect("utf8 text");
                i += 2;
            }
            "F" => {
                let name = String::from_utf8(unhex(&case.hist[i + 1])).expect("utf8 name");
                let content = String::from_utf8(unhex(&case.hist[i + 2])).expect("utf8 content");
                files.insert(name, content);
                i += 3;
            }
            _ => i += 1,
        }
    }
    let files2: StdHashMap<String, String> = files.iter().map(|(k, v)| (k.clone(), v.clone())).collect();
    let res = std::panic::catch_unwind(|| kanata_parser::cfg::new_from_str(&text, files.clone()));
    match res {
        Err(e) => {
            let msg = if let Some(s) = e.downcast_ref::<String>() { s.clone() } else if let Some(s) = e.downcast_ref::<&str>() { s.to_string() } else { "?".into() };
            println!("PANIC parse: {}", msg.replace('\n', " ").chars().take(140).collect::<String>());
        }
        Ok(Ok(_)) => println!("ACCEPTED"),
        Ok(Err(report)) => {
            // location, when given, must lie inside the file it names
            let mut loc = String::from("noloc");
            if let Some(labels) = report.labels() {
                for l in labels {
                    let off = l.offset();
                    let len = l.len();
                    let src_len = match report.source_code() {
                        Some(sc) => {
                            // read the whole source through the span API to learn its length and name
                            match sc.read_span(&miette::SourceSpan::new(0.into(), 0.into()), 0, 0) {
                                Ok(c) => {
                                    let name = c.name().map(|s| s.to_string()).unwrap_or_default();
                                    let flen = if name == "configuration" { text.len() } else { files2.get(&name).map(|s| s.len()).unwrap_or(usize::MAX) };
                                    (name, flen)
                                }
                                Err(_) => ("?".to_string(), usize::MAX),
                            }
                        }
                        None => ("none".to_string(), usize::MAX),
                    };
                    loc = format!("loc={}+{} file={} flen={}", off, len, src_len.0, src_len.1);
                    if src_len.1 != usize::MAX && off + len > src_len.1 {
                        loc.push_str(" OUTSIDE");
                    }
                }
            }
            let rendered = std::panic::catch_unwind(std::panic::AssertUnwindSafe(|| format!("{:?}", report)));
            match rendered {
                Ok(s) => {
                    let help = report.help().map(|h| h.to_string()).unwrap_or_default();
                    let first: String = help.lines().next().unwrap_or("").chars().take(70).collect();
                    println!("REJECTED {} rendered={} msg={}", loc, s.len() > 0, first)
                }
                Err(e) => {
                    let msg = if let Some(s) = e.downcast_ref::<String>() { s.clone() } else if let Some(s) = e.downcast_ref::<&str>() { s.to_string() } else { "?".into() };
                    println!("PANIC render: {} {}", loc, msg.replace('\n', " ").chars().take(140).collect::<String>());
                }
            }
        }
    }
    println!("TRACE-END");
}

pub fn run(args: &[String]) {
    std::panic::set_hook(Box::new(|_| {}));
    let cases = read_cases(&args[0]);
    let start: usize = args.get(1).map(|s| s.parse().unwrap()).unwrap_or(0);
    use std::io::Write as _;
    // per-case watchdog: a case that runs for more than 20 s is a hang (exit code 3, the caller restarts after it);
    // the time limit is per case so that a slow machine cannot turn a long batch into false hangs
    let started = std::sync::Arc::new(std::sync::Mutex::new(std::time::Instant::now()));
    {
        let started = started.clone();
        std::thread::spawn(move || loop {
            std::thread::sleep(std::time::Duration::from_millis(500));
            if started.lock().unwrap().elapsed() > std::time::Duration::from_secs(20) {
                std::process::exit(3);
            }
        });
    }
    for case in cases.iter().skip(start) {
        *started.lock().unwrap() = std::time::Instant::now();
        run_case(case);
        std::io::stdout().flush().unwrap();
    }
}
