//! C15: live reload.  The real `Kanata` created from files (Kanata::new), driven through the time handling of the
//! processing loop (`verif_handle_time_ticks`: ticks, layer-change notification, deferred live reload) with a
//! mocked clock, a server-message channel attached.
//!
//! CFG is the content of configuration file 0; `FILE p<i> n` the initial content of file i (i >= 1); any other FILE
//! is a named content.  History tokens: d/u<code>, t<n>, `W<i>,<name>` overwrite file i with the named content,
//! `W<i>,-` delete file i, `W<i>,/` replace file i by a directory, `q` print layer / file index / idle.
use crate::cases::*;
use crate::ksim::{canon_event, keyname_table, oscode};
use kanata_state_machine::oskbd::{KeyEvent, KeyValue};
use kanata_state_machine::{Kanata, ValidatedArgs};
use std::collections::HashMap;
use std::fmt::Write;
use std::path::PathBuf;

pub fn run_case(case: &Case, names: &HashMap<String, u16>, root: &PathBuf) {
    use std::io::Write as _;
    let mut out = String::new();
    writeln!(out, "CASE {}", case.id).unwrap();
    let dir = root.join(&case.id);
    let _ = std::fs::remove_dir_all(&dir);
    std::fs::create_dir_all(&dir).unwrap();
    let mut paths = vec![dir.join("p0.kbd")];
    std::fs::write(&paths[0], &case.cfg).unwrap();
    let mut i = 1;
    while let Some(c) = case.files.get(&format!("p{i}")) {
        let p = dir.join(format!("p{i}.kbd"));
        std::fs::write(&p, c).unwrap();
        paths.push(p);
        i += 1;
    }
    // auxiliary files next to the configuration files (e.g. a zippychord dictionary): FILE aux:<name>
    for (name, content) in case.files.iter() {
        if let Some(f) = name.strip_prefix("aux:") {
            std::fs::write(dir.join(f), content).unwrap();
        }
    }
    let args = ValidatedArgs { paths: paths.clone(), tcp_server_address: None, symlink_path: None, nodelay: true };
    let parsed = std::panic::catch_unwind(|| Kanata::new(&args));
    let mut k = match parsed {
        Err(_) => {
            writeln!(out, "PARSE-PANIC").unwrap();
            print!("{out}");
            return;
        }
        Ok(Err(e)) => {
            writeln!(out, "PARSE-ERR {}", format!("{e:?}").replace('\n', " ").chars().take(120).collect::<String>()).unwrap();
            print!("{out}");
            return;
        }
        Ok(Ok(k)) => k,
    };
    writeln!(out, "H {}", case.hist.join(" ")).unwrap();
    out.push_str("TRACE-BEGIN\n");
    let (tx, rx) = std::sync::mpsc::sync_channel::<kanata_tcp_protocol::ServerMessage>(1000);
    let tx = Some(tx);
    let mut tick: u64 = 0;
    let mut o = String::new();
    let res = std::panic::catch_unwind(std::panic::AssertUnwindSafe(|| {
        // One iteration of the processing loop per simulated millisecond, as in start_processing_loop:
        // can_block_update_idle_waiting(ms_elapsed); when it says "block" and no input is pending nothing runs;
        // otherwise at most one input event is handled, then handle_time_ticks.
        let mut pending: Vec<String> = vec![];
        let mut queue: std::collections::VecDeque<KeyEvent> = Default::default();
        let mut ms_elapsed: u16 = 0;
        for tok in case.hist.iter() {
            let (kind, rest) = tok.split_at(1);
            match kind {
                "d" | "u" | "r" => {
                    let code: u16 = rest.parse().unwrap();
                    let Some(osc) = oscode(code) else { continue };
                    let value = match kind {
                        "d" => KeyValue::Press,
                        "u" => KeyValue::Release,
                        _ => KeyValue::Repeat,
                    };
                    queue.push_back(KeyEvent { code: osc, value });
                }
                "W" => {
                    let (idx, name) = rest.split_once(',').unwrap();
                    let idx: usize = idx.parse().unwrap();
                    let p = &paths[idx];
                    let _ = std::fs::remove_file(p);
                    let _ = std::fs::remove_dir_all(p);
                    match name {
                        "-" => {}
                        "/" => std::fs::create_dir_all(p).unwrap(),
                        n => std::fs::write(p, case.files.get(n).expect("named content")).unwrap(),
                    }
                }
                "q" => {
                    let l = k.layout.b().current_layer();
                    let prev: Vec<String> = k.prev_keys.iter().map(|kc| (*kc as u16).to_string()).collect();
                    writeln!(o, "L@{} layer={}:{} file={} idle={} req={} down=[{}]", tick, l, k.layer_info[l].name, k.cur_cfg_idx, k.is_idle() as u8, k.verif_reload_flags().0 as u8, prev.join(" ")).unwrap();
                }
                "t" => {
                    let n: u64 = rest.parse().unwrap();
                    for _ in 0..n {
                        tick += 1;
                        let can_block = k.can_block_update_idle_waiting(ms_elapsed);
                        let ev = queue.pop_front();
                        if can_block && ev.is_none() {
                            continue;
                        }
                        if let Some(ev) = ev {
                            k.handle_input_event(&ev).expect("handle_input_event");
                        }
                        let before = k.verif_reload_flags();
                        ms_elapsed = k.verif_handle_time_ticks(&tx).expect("handle_time_ticks");
                        let after = k.verif_reload_flags();
                        // report a pending request when it starts and whenever its inputs change class
                        let interesting = after.0 && (!before.0 || before.1 != after.1 || (before.2 > 1000) != (after.2 > 1000));
                        if interesting {
                            writeln!(o, "RQ@{} keys_up={} tsi={} req_after={}", tick, after.1 as u8, after.2, after.0 as u8).unwrap();
                        }
                        // the request was consumed in this millisecond: the decision inputs it was taken on
                        if before.0 && !after.0 {
                            writeln!(o, "RA@{} keys_up={} tsi={}", tick, before.1 as u8, before.2).unwrap();
                        }
                        for ev in k.kbd_out.outputs.events.drain(..) {
                            if let Some(c) = canon_event(&ev, names) {
                                pending.push(c);
                            }
                        }
                        if !pending.is_empty() {
                            writeln!(o, "@{} {}", tick, pending.join(" ")).unwrap();
                            pending.clear();
                        }
                        while let Ok(m) = rx.try_recv() {
                            use kanata_tcp_protocol::ServerMessage::*;
                            match m {
                                LayerChange { new } => writeln!(o, "M@{} layer {}", tick, new).unwrap(),
                                ConfigFileReload { new } => {
                                    let base = std::path::Path::new(&new).file_name().map(|s| s.to_string_lossy().to_string()).unwrap_or_default();
                                    writeln!(o, "M@{} reload {}", tick, base).unwrap()
                                }
                                other => writeln!(o, "M@{} other {:?}", tick, other).unwrap(),
                            }
                        }
                    }
                }
                _ => panic!("bad history token {tok}"),
            }
        }
        let prev: Vec<String> = k.prev_keys.iter().map(|kc| (*kc as u16).to_string()).collect();
        let l = k.layout.b();
        writeln!(o, "END tick={} down=[{}] nstates={} layer={} idle={}", tick, prev.join(" "), l.states.len(), l.current_layer(), k.is_idle() as u8).unwrap();
    }));
    match res {
        Ok(()) => out.push_str(&o),
        Err(e) => {
            out.push_str(&o);
            let msg = if let Some(s) = e.downcast_ref::<String>() { s.clone() } else if let Some(s) = e.downcast_ref::<&str>() { s.to_string() } else { "?".to_string() };
            writeln!(out, "PANIC tick={} {}", tick, msg.replace('\n', " ")).unwrap();
        }
    }
    out.push_str("TRACE-END\n");
    let _ = std::fs::remove_dir_all(&dir);
    let stdout = std::io::stdout();
    let mut lk = stdout.lock();
    lk.write_all(out.as_bytes()).unwrap();
    lk.flush().unwrap();
}

pub fn run(args: &[String]) {
    std::panic::set_hook(Box::new(|_| {}));
    let cases = read_cases(&args[0]);
    let start: usize = args.get(1).map(|s| s.parse().unwrap()).unwrap_or(0);
    let names = keyname_table();
    let root = PathBuf::from(format!("/verif/build/tmp/rsim-{}", std::process::id()));
    for case in cases.iter().skip(start) {
        crate::wd::case_begin();
        run_case(case, &names, &root);
    }
    let _ = std::fs::remove_dir_all(&root);
}
