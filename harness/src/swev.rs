//! C10: the real parser compiles the case's switch conditions; the real `Switch::actions`
//! evaluates them under explicit environments.  Output: raw opcodes per case and fired case
//! indices per environment.
//!
//! H tokens:  ENV K <n> <code>.. C <n> <x> <y>.. HK <n> <code> <since>.. HI <n> <x> <y> <since>.. L <n> <layer>.. D <default>
//! (the condition ASTs are only used by the model side and are skipped here: `AST ... ;`)
use crate::cases::{read_cases, Case as TCase};
use crate::dump;
use kanata_keyberon::action::Action;
use kanata_keyberon::key_code::KeyCode;
use kanata_keyberon::layout::HistoricalEvent;
use kanata_parser::keys::OsCode;

fn kc(code: u16) -> KeyCode {
    OsCode::from_u16(code).expect("known code").into()
}

pub fn run_case(case: &TCase) {
    println!("CASE {}", case.id);
    let parsed = std::panic::catch_unwind(|| kanata_parser::cfg::new_from_str(&case.cfg, case.files.clone()));
    let cfg = match parsed {
        Err(_) => {
            println!("PARSE-PANIC");
            return;
        }
        Ok(Err(e)) => {
            let msg = e.help().map(|h| h.to_string()).unwrap_or_default().replace('\n', " ");
            println!("PARSE-ERR {}", msg.chars().take(120).collect::<String>());
            return;
        }
        Ok(Ok(c)) => c,
    };
    println!("H {}", case.hist.join(" "));
    println!("TRACE-BEGIN");
    let l = cfg.layout.b();
    let Action::Switch(sw) = &l.layers[0][0][30] else {
        println!("NOT-A-SWITCH");
        println!("TRACE-END");
        return;
    };
    let mut action_codes: Vec<u16> = vec![];
    for (i, (ops, ac, _brk)) in sw.cases.iter().enumerate() {
        let raw: Vec<String> = ops.iter().map(|o| dump::opcode_raw_pub(o).to_string()).collect();
        println!("OPS {} : {}", i, raw.join(" "));
        match ac {
            Action::KeyCode(k) => action_codes.push(*k as u16),
            _ => action_codes.push(0),
        }
    }
    // environments
    let toks = &case.hist;
    let mut i = 0;
    let mut env_idx = 0;
    while i < toks.len() {
        if toks[i] == "AST" {
            while toks[i] != ";" {
                i += 1;
            }
            i += 1;
            continue;
        }
        if toks[i] != "ENV" {
            i += 1;
            continue;
        }
        i += 1;
        let mut num = |i: &mut usize| -> u32 {
            let v: u32 = toks[*i].parse().expect("number");
            *i += 1;
            v
        };
        assert_eq!(toks[i], "K");
        i += 1;
        let n = num(&mut i);
        let keys: Vec<KeyCode> = (0..n).map(|_| kc(num(&mut i) as u16)).collect();
        assert_eq!(toks[i], "C");
        i += 1;
        let n = num(&mut i);
        let coords: Vec<(u8, u16)> = (0..n).map(|_| (num(&mut i) as u8, num(&mut i) as u16)).collect();
        assert_eq!(toks[i], "HK");
        i += 1;
        let n = num(&mut i);
        let hk: Vec<HistoricalEvent<KeyCode>> = (0..n)
            .map(|_| HistoricalEvent { event: kc(num(&mut i) as u16), ticks_since_occurrence: num(&mut i) as u16 })
            .collect();
        assert_eq!(toks[i], "HI");
        i += 1;
        let n = num(&mut i);
        let hi: Vec<HistoricalEvent<(u8, u16)>> = (0..n)
            .map(|_| HistoricalEvent { event: (num(&mut i) as u8, num(&mut i) as u16), ticks_since_occurrence: num(&mut i) as u16 })
            .collect();
        assert_eq!(toks[i], "L");
        i += 1;
        let n = num(&mut i);
        let layers: Vec<u16> = (0..n).map(|_| num(&mut i) as u16).collect();
        assert_eq!(toks[i], "D");
        i += 1;
        let default = num(&mut i) as u16;
        let res = std::panic::catch_unwind(std::panic::AssertUnwindSafe(|| {
            let fired: Vec<String> = sw
                .actions(
                    keys.iter().copied(),
                    coords.iter().copied(),
                    hk.iter().copied(),
                    hi.iter().copied(),
                    layers.iter().copied(),
                    default,
                )
                .map(|ac| match ac {
                    Action::KeyCode(k) => action_codes.iter().position(|c| *c == *k as u16).map(|p| p.to_string()).unwrap_or("?".into()),
                    _ => "?".to_string(),
                })
                .collect();
            fired
        }));
        match res {
            Ok(fired) => println!("EV {} : {}", env_idx, fired.join(" ")),
            Err(_) => println!("EV {} : PANIC", env_idx),
        }
        env_idx += 1;
    }
    println!("TRACE-END");
}

pub fn run(args: &[String]) {
    std::panic::set_hook(Box::new(|_| {}));
    let cases = read_cases(&args[0]);
    let start: usize = args.get(1).map(|s| s.parse().unwrap()).unwrap_or(0);
    for case in cases.iter().skip(start) {
        crate::wd::case_begin();
        run_case(case);
    }
}
