//! C03 correspondence: the s-expression layer (lexer, list builder, spans, Debug rendering, variable
//! resolution) of the real parser, printed canonically.  Text is hex-encoded after `X`.
use crate::cases::*;
use kanata_parser::cfg::sexpr::*;

fn unhex(h: &str) -> Vec<u8> {
    (0..h.len() / 2).map(|i| u8::from_str_radix(&h[2 * i..2 * i + 2], 16).unwrap()).collect()
}
fn hex(s: &str) -> String {
    s.bytes().map(|b| format!("{:02x}", b)).collect()
}
fn p(p: &Position) -> String {
    format!("{}.{}.{}", p.absolute, p.line, p.line_beginning)
}
fn sp(s: &Span) -> String {
    format!("[{}-{}]", p(&s.start), p(&s.end))
}
fn tree(e: &SExpr, out: &mut String) {
    match e {
        SExpr::Atom(a) => {
            out.push_str(&format!("A{}:{} ", sp(&a.span), hex(&a.t)));
        }
        SExpr::List(l) => {
            out.push_str(&format!("L{}( ", sp(&l.span)));
            for x in &l.t {
                tree(x, out);
            }
            out.push_str(") ");
        }
    }
}

fn msg_kind(m: &str) -> &'static str {
    if m.contains("Unterminated multiline string") {
        "unterm-mstring"
    } else if m.contains("Unterminated multiline comment") {
        "unterm-comment"
    } else if m.contains("Unterminated string") {
        "unterm-string"
    } else if m.contains("Unexpected closing") {
        "unexpected-close"
    } else if m.contains("Unclosed opening") {
        "unclosed-open"
    } else if m.contains("Everything must be in a list") {
        "not-in-list"
    } else {
        "other"
    }
}

fn show_parse(text: &str, ignore: bool) -> String {
    match parse_(text, "f", ignore) {
        Err(e) => format!(
            "ERR {} {}",
            msg_kind(&e.msg),
            e.span.as_ref().map(sp).unwrap_or_else(|| "nospan".into())
        ),
        Ok((tops, metas)) => {
            let mut s = String::from("OK ");
            for t in &tops {
                tree(&SExpr::List(t.clone()), &mut s);
            }
            s.push_str("| ");
            for m in &metas {
                let (k, x) = match m {
                    SExprMetaData::LineComment(x) => ("ML", x),
                    SExprMetaData::BlockComment(x) => ("MB", x),
                    SExprMetaData::Whitespace(x) => ("MW", x),
                };
                s.push_str(&format!("{}{}:{} ", k, sp(&x.span), hex(&x.t)));
            }
            s
        }
    }
}

fn head_is(l: &[SExpr], name: &str) -> bool {
    matches!(l.first(), Some(SExpr::Atom(a)) if a.t == name)
}

pub fn run_case(case: &Case) {
    println!("CASE {}", case.id);
    println!("H {}", case.hist.join(" "));
    println!("TRACE-BEGIN");
    let text = String::from_utf8(unhex(&case.hist[1])).expect("utf8 text");
    let r = std::panic::catch_unwind(|| {
        println!("P1 {}", show_parse(&text, true));
        println!("P0 {}", show_parse(&text, false));
        if let Ok(tops) = parse(&text, "f") {
            for t in &tops {
                println!("D {}", hex(&format!("{:?}", SExpr::List(t.clone()))));
            }
            // variables
            let stripped = text.strip_prefix('\u{feff}').unwrap_or(&text);
            let defvars: Vec<_> = tops.iter().filter(|t| head_is(&t.t, "defvar")).collect();
            if !defvars.is_empty() {
                let mut cfg = String::new();
                for d in &defvars {
                    cfg.push_str(&stripped[d.span.start()..d.span.end()]);
                    cfg.push('\n');
                }
                cfg.push_str("(defsrc a)(deflayer l a)\n");
                let res = kanata_parser::cfg::new_from_str(&cfg, Default::default());
                let v = match &res {
                    Ok(_) => "OK".to_string(),
                    Err(e) => {
                        let h = e.help().map(|h| h.to_string()).unwrap_or_default();
                        if h.contains("variable refers to itself") {
                            "SELF".into()
                        } else if h.contains("duplicate variable name") {
                            "DUP".into()
                        } else {
                            "OTHER".into()
                        }
                    }
                };
                println!("V {}", v);
                if v == "OK" {
                    let mut vars: rustc_hash::FxHashMap<String, SExpr> = Default::default();
                    for d in &defvars {
                        let mut it = d.t.iter().skip(1);
                        while let (Some(SExpr::Atom(n)), Some(val)) = (it.next(), it.next()) {
                            vars.insert(n.t.clone(), val.clone());
                        }
                    }
                    let mut qi = 0;
                    for t in tops.iter().filter(|t| head_is(&t.t, "q")) {
                        for e in t.t.iter().skip(1) {
                            let a = e.atom(Some(&vars)).map(hex).unwrap_or_else(|| "None".into());
                            let l = e
                                .list(Some(&vars))
                                .map(|l| {
                                    let mut s = String::new();
                                    for x in l {
                                        s.push_str(&format!("{:?};", x));
                                    }
                                    hex(&s)
                                })
                                .unwrap_or_else(|| "None".into());
                            println!("Q {} atom={} list={}", qi, a, l);
                            qi += 1;
                        }
                    }
                }
            }
        }
    });
    if let Err(e) = r {
        let msg = if let Some(s) = e.downcast_ref::<String>() { s.clone() } else if let Some(s) = e.downcast_ref::<&str>() { s.to_string() } else { "?".into() };
        println!("PANIC sx: {}", msg.replace('\n', " ").chars().take(140).collect::<String>());
    }
    println!("TRACE-END");
}

pub fn run(args: &[String]) {
    std::panic::set_hook(Box::new(|_| {}));
    let cases = read_cases(&args[0]);
    let start: usize = args.get(1).map(|s| s.parse().unwrap()).unwrap_or(0);
    use std::io::Write as _;
    for case in cases.iter().skip(start) {
        crate::wd::case_begin();
        run_case(case);
        std::io::stdout().flush().unwrap();
    }
}
