//! C16 correspondence: template expansion (deftemplate.rs) of the real parser, printed canonically.
use crate::cases::*;
use kanata_parser::cfg::sexpr::*;

fn unhex(h: &str) -> Vec<u8> {
    (0..h.len() / 2).map(|i| u8::from_str_radix(&h[2 * i..2 * i + 2], 16).unwrap()).collect()
}
fn hex(s: &str) -> String {
    s.bytes().map(|b| format!("{:02x}", b)).collect()
}
fn tree(e: &SExpr, out: &mut String) {
    match e {
        SExpr::Atom(a) => {
            out.push_str(&format!("A:{} ", hex(&a.t)));
        }
        SExpr::List(l) => {
            out.push_str("( ");
            for x in &l.t {
                tree(x, out);
            }
            out.push_str(") ");
        }
    }
}
fn class(m: &str) -> &'static str {
    if m.contains("deftemplate must have the template name") {
        "no-name"
    } else if m.contains("template name must be a string") {
        "name-not-string"
    } else if m.contains("already defined earlier") {
        "duplicate"
    } else if m.contains("variables as the second parameter") {
        "no-vars"
    } else if m.contains("variables the second parameter") {
        "vars-not-list"
    } else if m.contains("variables must be strings") {
        "var-not-string"
    } else if m.contains("not allowed within deftemplate") {
        "nested"
    } else if m.contains("Unknown template name in template-expand") {
        "unknown-in-body"
    } else if m.contains("template-expand must have a template name") {
        "call-no-name"
    } else if m.contains("was not defined in any deftemplate") {
        "call-unknown"
    } else if m.contains("parameters but instead found") {
        "call-arity"
    } else if m.contains("comparand as the first parameter") {
        "cond-arg1"
    } else if m.contains("comparand as the second parameter") {
        "cond-arg2"
    } else if m.contains("must be strings") || m.contains("must be a string") || m.contains("must be a list") {
        "cond-type"
    } else if m.contains("string outside any list") {
        "top-atom"
    } else {
        "other"
    }
}

pub fn run_case(case: &Case) {
    println!("CASE {}", case.id);
    println!("H {}", case.hist.join(" "));
    println!("TRACE-BEGIN");
    let text = String::from_utf8(unhex(case.hist.get(1).map(|s| s.as_str()).unwrap_or(""))).expect("utf8 text");
    let r = std::panic::catch_unwind(|| match parse(&text, "f") {
        Err(_) => println!("T LEXERR"),
        Ok(tops) => {
            let mut hints = kanata_parser::lsp_hints::LspHints::default();
            match kanata_parser::cfg::expand_templates(tops, &mut hints) {
                Err(e) => println!("T ERR {}", class(&e.msg)),
                Ok(tops) => {
                    let mut s = String::from("T OK ");
                    for t in &tops {
                        tree(&SExpr::List(t.clone()), &mut s);
                    }
                    println!("{}", s);
                }
            }
        }
    });
    if let Err(e) = r {
        let msg = if let Some(s) = e.downcast_ref::<String>() { s.clone() } else if let Some(s) = e.downcast_ref::<&str>() { s.to_string() } else { "?".into() };
        println!("PANIC tmpl: {}", msg.replace('\n', " ").chars().take(140).collect::<String>());
    }
    println!("TRACE-END");
}

pub fn run(args: &[String]) {
    std::panic::set_hook(Box::new(|_| {}));
    let cases = read_cases(&args[0]);
    let start: usize = args.get(1).map(|s| s.parse().unwrap()).unwrap_or(0);
    use std::io::Write as _;
    for case in cases.iter().skip(start) {
        crate::wd::case_begin();
        run_case(case);
        std::io::stdout().flush().unwrap();
    }
}
