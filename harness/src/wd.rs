//! Per-case watchdog shared by the simulation subcommands: a case that runs for more than the limit is a hang
//! (exit code 3; the caller records HANG for that case and restarts after it).  The limit is per case, so a slow
//! machine cannot turn a long batch into false hangs; normal cases take milliseconds.
use std::sync::{Mutex, OnceLock};
use std::time::{Duration, Instant};

static STARTED: OnceLock<Mutex<Instant>> = OnceLock::new();

pub fn case_begin() {
    let first = STARTED.get().is_none();
    let m = STARTED.get_or_init(|| Mutex::new(Instant::now()));
    *m.lock().unwrap() = Instant::now();
    if first {
        std::thread::spawn(|| loop {
            std::thread::sleep(Duration::from_millis(500));
            if STARTED.get().unwrap().lock().unwrap().elapsed() > Duration::from_secs(20) {
                use std::io::Write as _;
                let _ = std::io::stdout().flush();
                std::process::exit(3);
            }
        });
    }
}
