(* READING-TIME SPIKE, not part of the framework (see DESIGN.md, C10 and Appendix B).

   Purpose: calibrate the effort of the flagship theorem before committing to the plan.
   Content: a Gallina model of parse_switch_case_bool's layout (operator opcode stores its end
   index, children contiguous) and of evaluate_boolean's loop (explicit frame stack, short-circuit
   jumps, final unwinding), restricted to key leaves (1-word opcodes) and without the depth-8 assert.
     - [eval_correct]      : for the evaluator WITH the one-line repair (pop branch: ret := !ret for Not),
                             every well-formed forest evaluates to its denotation. All nesting depths.
     - [eval_orig_refuted] : the evaluator AS IT IS at the pinned commit disagrees with the written
                             condition on ((not (or a)) a) with nothing pressed (vm_compute witness;
                             confirmed on the real code, notes/PROBES.md P-C10-1).
   Both are "Closed under the global context". Written and proved in about half an hour:
   coqc -Q . S SwitchEvalSpike.v  (1.7 s).
   Lessons: nested-fix equations (size_op, compile_op) hold by reflexivity; use a hand-made induction
   principle with Forall for the rose tree; keep `run` checking `i <? length code` BEFORE matching on
   fuel so that finished runs are fuel-independent; state the operand lemma as a relation (dead `ret`
   after a non-final nested operand) and quantify it over every `ret`; do not `subst` section variables. *)

From Coq Require Import List Arith Bool Lia.
Import ListNotations.

Inductive bop := Or | And | Not.
Inductive bexpr := Leaf (k : nat) | Op (o : bop) (es : list bexpr).

Section Ind.
  Variable P : bexpr -> Prop.
  Hypothesis HL : forall k, P (Leaf k).
  Hypothesis HO : forall o es, Forall P es -> P (Op o es).
  Fixpoint bexpr_ind' (e : bexpr) : P e :=
    match e with
    | Leaf k => HL k
    | Op o es => HO o es ((fix go l : Forall P l :=
        match l with [] => Forall_nil _ | x :: r => Forall_cons _ (bexpr_ind' x) (go r) end) es)
    end.
End Ind.

Fixpoint size (e : bexpr) : nat :=
  match e with
  | Leaf _ => 1
  | Op _ es => S ((fix go l := match l with [] => 0 | x :: r => size x + go r end) es)
  end.
Fixpoint sizes (l : list bexpr) : nat := match l with [] => 0 | x :: r => size x + sizes r end.
Lemma size_op o es : size (Op o es) = S (sizes es).
Proof. reflexivity. Qed.
Lemma size_pos e : 1 <= size e. Proof. destruct e; [cbn; lia | rewrite size_op; lia]. Qed.

Inductive opcode := OKey (k : nat) | OBool (o : bop) (e : nat).

Fixpoint compile (off : nat) (e : bexpr) : list opcode :=
  match e with
  | Leaf k => [OKey k]
  | Op o es => OBool o (off + size e) ::
      (fix go off l := match l with [] => [] | x :: r => compile off x ++ go (off + size x) r end) (S off) es
  end.
Fixpoint compiles (off : nat) (l : list bexpr) : list opcode :=
  match l with [] => [] | x :: r => compile off x ++ compiles (off + size x) r end.
Lemma compile_op off o es : compile off (Op o es) = OBool o (off + size (Op o es)) :: compiles (S off) es.
Proof. reflexivity. Qed.

Lemma length_compile e : forall off, length (compile off e) = size e.
Proof.
  induction e as [k|o es IH] using bexpr_ind'; intros off; [reflexivity|].
  rewrite compile_op, size_op. cbn [length]. f_equal. generalize (S off).
  induction IH as [|x r Hx _ IHr]; intros n; cbn; [reflexivity|]. rewrite app_length, Hx, IHr. reflexivity.
Qed.
Lemma length_compiles es : forall off, length (compiles off es) = sizes es.
Proof. induction es as [|x r IH]; intros off; cbn; [reflexivity|]. now rewrite app_length, length_compile, IH. Qed.

Definition neg_if_not (o : bop) (b : bool) := match o with Not => negb b | _ => b end.
Definition sc_leaf (r : bool) (o : bop) := match o with Or => r | _ => negb r end.
Definition sc_pop (r : bool) (o : bop) := match o with And => negb r | _ => r end.
Definition unwind (st : list (bop * nat)) (r : bool) := fold_left (fun r fr => neg_if_not (fst fr) r) st r.

(* evaluate_boolean of keyberon/src/action/switch.rs, with the one-line repair (neg_if_not in the pop branch) *)
Fixpoint run (fuel : nat) (code : list opcode) (env : nat -> bool)
         (ret : bool) (i endi : nat) (op : bop) (st : list (bop * nat)) : option bool :=
  if i <? length code then
    match fuel with
    | 0 => None
    | S f =>
      if endi <=? i then
        match st with
        | [] => Some ret
        | (o, e) :: st' =>
          if sc_pop ret o || (e <=? i) then run f code env (neg_if_not o ret) e e o st'
          else run f code env ret i e o st'
        end
      else
        match nth_error code i with
        | None => None
        | Some (OBool o2 e2) => run f code env ret (S i) e2 o2 ((op, endi) :: st)
        | Some (OKey k) =>
          let r := neg_if_not op (env k) in
          if sc_leaf r op then run f code env r endi endi op st
          else run f code env r (S i) endi op st
        end
    end
  else Some (unwind st ret).

Fixpoint denote (env : nat -> bool) (e : bexpr) : bool :=
  match e with
  | Leaf k => env k
  | Op Or es => existsb (denote env) es
  | Op And es => forallb (denote env) es
  | Op Not es => negb (existsb (denote env) es)
  end.
Definition frame_val env (o : bop) (es : list bexpr) : bool :=
  match o with Or => existsb (denote env) es | And => forallb (denote env) es | Not => negb (existsb (denote env) es) end.
Lemma denote_op env o es : denote env (Op o es) = frame_val env o es.
Proof. destruct o; reflexivity. Qed.
Definition denote_top env (es : list bexpr) := match es with [] => true | _ => existsb (denote env) es end.

Inductive wf : bexpr -> Prop :=
| wf_leaf k : wf (Leaf k)
| wf_op o es : es <> [] -> Forall wf es -> wf (Op o es).

Definition seg_at (code : list opcode) (off : nat) (seg : list opcode) :=
  forall j x, nth_error seg j = Some x -> nth_error code (off + j) = Some x.
Lemma seg_at_app code off a b : seg_at code off (a ++ b) -> seg_at code off a /\ seg_at code (off + length a) b.
Proof.
  intros H; split; intros j x Hj.
  - apply H. rewrite nth_error_app1; [exact Hj|]. apply nth_error_Some. congruence.
  - rewrite <- Nat.add_assoc. apply H. rewrite nth_error_app2 by lia. replace (length a + j - length a) with j by lia. exact Hj.
Qed.
Lemma seg_at_cons code off x l : seg_at code off (x :: l) -> nth_error code off = Some x /\ seg_at code (S off) l.
Proof.
  intros H; split.
  - rewrite <- (Nat.add_0_r off). apply H. reflexivity.
  - intros j y Hj. replace (S off + j) with (off + S j) by lia. apply H. exact Hj.
Qed.
Lemma seg_at_len code off seg : seg <> [] -> seg_at code off seg -> off + length seg <= length code.
Proof.
  intros Hne H. destruct (length seg) eqn:E; [destruct seg; [congruence|discriminate]|].
  destruct (nth_error seg n) eqn:En.
  - specialize (H _ _ En). assert (off + n < length code) by (apply nth_error_Some; congruence). lia.
  - apply nth_error_None in En. lia.
Qed.

Section Correct.
Variable code : list opcode.
Variable env : nat -> bool.

Lemma run_exit f ret i endi op st : length code <= i -> run f code env ret i endi op st = Some (unwind st ret).
Proof. intros H. destruct f; cbn [run]; destruct (Nat.ltb_spec i (length code)); try lia; reflexivity. Qed.

Lemma run_key f ret i endi op st k :
  i < length code -> i < endi -> nth_error code i = Some (OKey k) ->
  run (S f) code env ret i endi op st =
    (if sc_leaf (neg_if_not op (env k)) op then run f code env (neg_if_not op (env k)) endi endi op st
     else run f code env (neg_if_not op (env k)) (S i) endi op st).
Proof.
  intros H1 H2 H3. cbn [run]. destruct (Nat.ltb_spec i (length code)); [|lia].
  destruct (Nat.leb_spec endi i); [lia|]. rewrite H3. reflexivity.
Qed.

Lemma run_bool f ret i endi op st o2 e2 :
  i < length code -> i < endi -> nth_error code i = Some (OBool o2 e2) ->
  run (S f) code env ret i endi op st = run f code env ret (S i) e2 o2 ((op, endi) :: st).
Proof.
  intros H1 H2 H3. cbn [run]. destruct (Nat.ltb_spec i (length code)); [|lia].
  destruct (Nat.leb_spec endi i); [lia|]. rewrite H3. reflexivity.
Qed.

Lemma run_pop f ret i endi op o e st :
  i < length code -> endi <= i ->
  run (S f) code env ret i endi op ((o, e) :: st) =
    (if sc_pop ret o || (e <=? i) then run f code env (neg_if_not o ret) e e o st
     else run f code env ret i e o st).
Proof.
  intros H1 H2. cbn [run]. destruct (Nat.ltb_spec i (length code)); [|lia].
  destruct (Nat.leb_spec endi i); [|lia]. reflexivity.
Qed.

Definition operand_ok (e : bexpr) : Prop :=
  forall off endi op st,
    seg_at code off (compile off e) -> off + size e <= endi -> endi <= length code ->
    exists n, forall f ret,
      ((sc_leaf (neg_if_not op (denote env e)) op = true \/ off + size e = endi) ->
         run (n + f) code env ret off endi op st =
         run f code env (neg_if_not op (denote env e)) endi endi op st)
      /\ ((sc_leaf (neg_if_not op (denote env e)) op = false /\ off + size e < endi) ->
         exists r0, run (n + f) code env ret off endi op st = run f code env r0 (off + size e) endi op st).

Lemma sizes_pos es : es <> [] -> 1 <= sizes es.
Proof. destruct es as [|x r]; [congruence|]. intros _. cbn. pose proof (size_pos x). lia. Qed.

Lemma frame_ok es : es <> [] -> Forall operand_ok es ->
  forall off endi op st, seg_at code off (compiles off es) -> off + sizes es = endi -> endi <= length code ->
  exists n, forall f ret,
    run (n + f) code env ret off endi op st = run f code env (frame_val env op es) endi endi op st.
Proof.
  intros Hne HF. induction HF as [|x rest Hx HFr IH]; [congruence|].
  intros off endi op st Hseg Hend Hlen. cbn [compiles] in Hseg. apply seg_at_app in Hseg as [Hsx Hsr].
  rewrite length_compile in Hsr. cbn [sizes] in Hend.
  destruct (Hx off endi op st Hsx ltac:(lia) Hlen) as [n1 H1].
  destruct (sc_leaf (neg_if_not op (denote env x)) op) eqn:Esc.
  - exists n1. intros f ret. destruct (H1 f ret) as [Ha _]. rewrite Ha by (left; reflexivity).
    f_equal. destruct op; cbn in *.
    + rewrite Esc. reflexivity.
    + apply negb_true_iff in Esc. rewrite Esc. reflexivity.
    + apply negb_true_iff in Esc. apply negb_false_iff in Esc. rewrite Esc. reflexivity.
  - destruct rest as [|y rest'].
    + exists n1. intros f ret. destruct (H1 f ret) as [Ha _]. cbn [sizes] in Hend. rewrite Ha by (right; lia).
      f_equal. destruct op; cbn; rewrite ?orb_false_r, ?andb_true_r; reflexivity.
    + assert (Hne' : y :: rest' <> []) by congruence.
      pose proof (sizes_pos _ Hne') as Hp.
      destruct (IH Hne' (off + size x) endi op st Hsr ltac:(lia) Hlen) as [n2 H2].
      exists (n1 + n2). intros f ret. destruct (H1 (n2 + f) ret) as [_ Hb].
      destruct Hb as [r0 Hr0]; [split; [reflexivity | lia]|].
      rewrite <- Nat.add_assoc, Hr0, H2. f_equal.
      destruct op; cbn in Esc |- *.
      * rewrite Esc. reflexivity.
      * apply negb_false_iff in Esc. rewrite Esc. reflexivity.
      * apply negb_false_iff in Esc. apply negb_true_iff in Esc. rewrite Esc. reflexivity.
Qed.

Lemma sc_pop_leaf v op : sc_pop v op = sc_leaf (neg_if_not op v) op.
Proof. destruct op, v; reflexivity. Qed.

Lemma operand_ok_all e : wf e -> operand_ok e.
Proof.
  induction e as [k|o2 es IH] using bexpr_ind'; intros Hwf.
  - intros off endi op st Hseg Hend Hlen. cbn [size] in *. cbn [compile] in Hseg.
    apply seg_at_cons in Hseg as [Hn _]. exists 1. intros f ret. cbn [denote]. change (1 + f) with (S f).
    rewrite (run_key f ret off endi op st k) by (lia || assumption).
    split.
    + intros [Hs|He].
      * rewrite Hs. reflexivity.
      * destruct (sc_leaf _ op); [reflexivity|]. replace (S off) with endi by lia. reflexivity.
    + intros [Hs Hlt]. rewrite Hs. exists (neg_if_not op (env k)). f_equal. lia.
  - inversion Hwf as [|o' es' Hne HFwf]; subst.
    assert (HF : Forall operand_ok es).
    { clear -IH HFwf. induction IH; inversion HFwf; subst; constructor; auto. }
    intros off endi op st Hseg Hend Hlen. rewrite compile_op in Hseg.
    apply seg_at_cons in Hseg as [Hn Hsr]. rewrite size_op in *.
    pose proof (sizes_pos _ Hne) as Hp.
    destruct (frame_ok es Hne HF (S off) (off + S (sizes es)) o2 ((op, endi) :: st) Hsr ltac:(lia) ltac:(lia)) as [nf Hf].
    exists (S (nf + 1)). intros f ret.
    cbn [Nat.add]. rewrite (run_bool _ ret off endi op st o2 (off + S (sizes es))) by (lia || assumption).
    rewrite <- Nat.add_assoc. rewrite Hf. rewrite denote_op.
    set (fv := frame_val env o2 es). set (e2 := off + S (sizes es)).
    destruct (Nat.lt_ge_cases e2 (length code)) as [Hlt|Hge].
    + cbn [Nat.add]. rewrite run_pop by lia. rewrite sc_pop_leaf.
      split.
      * intros [Hs|He].
        -- rewrite Hs. reflexivity.
        -- destruct (Nat.leb_spec endi e2); [|lia]. rewrite orb_true_r. reflexivity.
      * intros [Hs Hl]. rewrite Hs. destruct (Nat.leb_spec endi e2); [lia|]. cbn [orb]. exists fv. reflexivity.
    + assert (e2 = endi) by lia. assert (endi = length code) by lia.
      rewrite run_exit by lia. split.
      * intros _. rewrite run_exit by lia. cbn [unwind fold_left fst]. reflexivity.
      * intros [_ Hl]. lia.
Qed.

Theorem eval_correct es : Forall wf es -> code = compiles 0 es ->
  exists n, run n code env true 0 (length code) Or [] = Some (denote_top env es).
Proof.
  intros HF Hc. destruct es as [|x r].
  - exists 0. rewrite Hc. reflexivity.
  - assert (Hne : x :: r <> []) by congruence.
    assert (HFo : Forall operand_ok (x :: r)).
    { clear -HF. induction HF; constructor; auto using operand_ok_all. }
    assert (Hseg : seg_at code 0 (compiles 0 (x :: r))) by (rewrite Hc; intros j y Hj; exact Hj).
    assert (Hl : length code = sizes (x :: r)) by (rewrite Hc; apply length_compiles).
    destruct (frame_ok _ Hne HFo 0 (length code) Or [] Hseg ltac:(lia) ltac:(lia)) as [n Hn].
    exists (n + 0). rewrite Hn. rewrite run_exit by lia. reflexivity.
Qed.
End Correct.

Print Assumptions eval_correct.

(* The evaluator as it is at the pinned commit: the pop branch forces [ret := false] for Not. *)
Fixpoint run_orig (fuel : nat) (code : list opcode) (env : nat -> bool)
         (ret : bool) (i endi : nat) (op : bop) (st : list (bop * nat)) : option bool :=
  if i <? length code then
    match fuel with
    | 0 => None
    | S f =>
      if endi <=? i then
        match st with
        | [] => Some ret
        | (o, e) :: st' =>
          if sc_pop ret o || (e <=? i)
          then run_orig f code env (match o with Not => false | _ => ret end) e e o st'
          else run_orig f code env ret i e o st'
        end
      else
        match nth_error code i with
        | None => None
        | Some (OBool o2 e2) => run_orig f code env ret (S i) e2 o2 ((op, endi) :: st)
        | Some (OKey k) =>
          let r := neg_if_not op (env k) in
          if sc_leaf r op then run_orig f code env r endi endi op st
          else run_orig f code env r (S i) endi op st
        end
    end
  else Some (unwind st ret).

(* ((not (or a)) a) with nothing pressed: written condition is true, evaluator says false. *)
Definition witness : list bexpr := [Op Not [Op Or [Leaf 0]]; Leaf 0].
Lemma witness_wf : Forall wf witness.
Proof. repeat constructor; congruence. Qed.
Lemma eval_orig_refuted :
  exists es env, Forall wf es /\
    let code := compiles 0 es in
    run_orig 100 code env true 0 (length code) Or [] = Some (negb (denote_top env es)).
Proof. exists witness, (fun _ => false). split; [exact witness_wf | vm_compute; reflexivity]. Qed.
Print Assumptions eval_orig_refuted.
