// throwaway: C07 paired-run search. Run A = history; run B = same history with K extra ticks inserted
// at the first point (after a random index) where can_block is true. Outputs (minus tick stamps) must agree.
use kanata_state_machine::{Kanata, oskbd::{KeyEvent, KeyValue}};
use kanata_parser::keys::OsCode;
use rustc_hash::FxHashMap;
use std::panic;
struct Rng(u64);
impl Rng { fn next(&mut self) -> u64 { self.0 ^= self.0 << 13; self.0 ^= self.0 >> 7; self.0 ^= self.0 << 17; self.0 }
           fn below(&mut self, n: usize) -> usize { (self.next() % n as u64) as usize } }
fn run(text: &str, inc: &FxHashMap<String,String>, ks: &[OsCode], evs: &[(char, usize, u128)], insert_at: Option<(usize, u128)>) -> (Vec<String>, Option<usize>) {
    let mut k = Kanata::new_from_str(text, inc.clone()).unwrap();
    let mut first_block = None;
    for (n, (c, i, g)) in evs.iter().enumerate() {
        k.handle_input_event(&KeyEvent{code: ks[*i], value: if *c=='d' {KeyValue::Press} else {KeyValue::Release}}).unwrap();
        k.tick_ms(*g, &None).unwrap();
        if let Some((at, kk)) = insert_at { if n == at { k.tick_ms(kk, &None).unwrap(); } }
        else if first_block.is_none() && *g > 0 { let cb = k.can_block_update_idle_waiting(1); if cb && n >= 2 { first_block = Some(n); } }
    }
    k.tick_ms(9000, &None).unwrap();
    (k.kbd_out.outputs.events.iter().filter(|e| !e.starts_with("t:")).cloned().collect(), first_block)
}
fn main() {
    let args: Vec<String> = std::env::args().collect();
    let path = &args[1]; let trials: usize = args[2].parse().unwrap(); let seed: u64 = args[3].parse().unwrap();
    let text = std::fs::read_to_string(path).unwrap();
    let mut inc: FxHashMap<String,String> = Default::default();
    let dir = std::path::Path::new(path).parent().unwrap();
    for e in std::fs::read_dir(dir).unwrap() { let e = e.unwrap(); if e.path().is_file() { if let Ok(s) = std::fs::read_to_string(e.path()) { inc.insert(e.file_name().to_string_lossy().to_string(), s); } } }
    let _cfg = kanata_parser::cfg::new_from_str(&text, inc.clone()).unwrap_or_else(|e| panic!("{e:?}"));
    let start = text.find("(defsrc").unwrap(); let end = start + text[start..].find(')').unwrap();
    let keys: Vec<OsCode> = text[start+7..end].lines().map(|l| l.split(";;").next().unwrap().to_string()).collect::<Vec<_>>().join(" ")
        .split_whitespace().filter_map(|w| kanata_state_machine::str_to_oscode(w)).collect();
    let gaps = [0u128,1,2,5,50,199,200,201,600,31000,31000,31000];
    let mut rng = Rng(seed.wrapping_mul(0x9E3779B97F4A7C15).wrapping_add(1));
    let mut seen = std::collections::HashSet::new(); let mut compared = 0;
    panic::set_hook(Box::new(|_| {}));
    for t in 0..trials {
        let nk = 2 + rng.below(4); let ks: Vec<OsCode> = (0..nk).map(|_| keys[rng.below(keys.len())]).collect();
        let len = 4 + rng.below(16);
        let mut down = vec![false; nk]; let mut evs: Vec<(char, usize, u128)> = vec![];
        for _ in 0..len { let i = rng.below(nk); let g = gaps[rng.below(gaps.len())];
            if down[i] { evs.push(('u', i, g)); down[i] = false; } else { evs.push(('d', i, g)); down[i] = true; } }
        for i in 0..nk { if down[i] { evs.push(('u', i, gaps[rng.below(gaps.len())])); } }
        let kk = [1u128, 7, 1000, 12000, 70000][rng.below(5)];
        let (t2, i2, k2, e2) = (text.clone(), inc.clone(), ks.clone(), evs.clone());
        let r = panic::catch_unwind(move || {
            let (a, fb) = run(&t2, &i2, &k2, &e2, None);
            match fb { None => None, Some(at) => { let (b, _) = run(&t2, &i2, &k2, &e2, Some((at, kk))); Some((a, b, at)) } }
        });
        if let Ok(Some((a, b, at))) = r { compared += 1; if a != b {
            let hist: Vec<String> = evs.iter().map(|(c,i,g)| format!("{}:{:?} t:{}", c, ks[*i], g)).collect();
            let key = format!("{:?}", (a.len(), b.len()));
            if seen.insert(key) && seen.len() <= 6 { println!("trial {t}: DIFF after inserting {kk} ticks following event #{at}\n   hist: {}\n   A: {}\n   B: {}", hist.join(" "), a.join(" "), b.join(" ")); } } }
    }
    println!("done {trials} trials, compared {compared}, {} distinct diffs", seen.len());
}
