"""Corpus of configuration texts and structure-aware / byte-level mutators (C03, C16)."""
import os, re, glob, random, binascii

REPO = os.environ.get('KANATA_REPO', '/repo')

# ---------------------------------------------------------------------------------------------
# python mirror of the kanata lexer, only used to find sub-expression boundaries for mutation
# ---------------------------------------------------------------------------------------------
WS = b' \t\n\r\x0c'   # u8::is_ascii_whitespace: space, \t, \n, \x0c, \r


def lex(b: bytes):
    """-> list of (kind, start, end); kinds: ( ) atom ws lc bc ; stops at the first lexer error"""
    out = []
    i, n = 0, len(b)
    while i < n:
        s = i
        c = b[i:i + 1]
        if c == b'(':
            i += 1; out.append(('(', s, i)); continue
        if c == b')':
            i += 1; out.append((')', s, i)); continue
        if c == b'"':
            j = i + 1
            while j < n and b[j:j + 1] not in (b'"', b'\n'):
                j += 1
            if j < n and b[j:j + 1] == b'"':
                i = j + 1; out.append(('atom', s, i)); continue
            return out
        if c == b';' and b[i + 1:i + 2] == b';':
            j = b.find(b'\n', i)
            i = n if j < 0 else j + 1
            out.append(('lc', s, i)); continue
        if c == b'r' and b[i + 1:i + 3] == b'#"':
            j = b.find(b'"#', i + 3)
            if j < 0:
                return out
            i = j + 2; out.append(('atom', s, i)); continue
        if c == b'#' and b[i + 1:i + 2] == b'|':
            j = b.find(b'|#', i + 2)
            if j < 0:
                return out
            i = j + 2; out.append(('bc', s, i)); continue
        if c in (b' ', b'\t', b'\n', b'\r', b'\x0c'):
            j = i
            while j < n and b[j:j + 1] in (b' ', b'\t', b'\n', b'\r', b'\x0c'):
                j += 1
            i = j; out.append(('ws', s, i)); continue
        j = i + 1
        while j < n and b[j:j + 1] not in (b'(', b')', b'"', b' ', b'\t', b'\n', b'\r', b'\x0c'):
            j += 1
        i = j; out.append(('atom', s, i))
    return out


def subexprs(b: bytes):
    """-> (atoms, lists): byte ranges of every atom and every balanced list"""
    atoms, lists, stack = [], [], []
    for k, s, e in lex(b):
        if k == 'atom':
            atoms.append((s, e, len(stack)))
        elif k == '(':
            stack.append(s)
        elif k == ')':
            if stack:
                st = stack.pop()
                lists.append((st, e, len(stack)))
    return atoms, lists


# ---------------------------------------------------------------------------------------------
# corpus
# ---------------------------------------------------------------------------------------------
_corpus = None


def corpus():
    """[(name, text, files)] : shipped samples, parser test configs, configs embedded in docs and tests"""
    global _corpus
    if _corpus is not None:
        return _corpus
    out = []
    inc = {}
    for p in sorted(glob.glob(f'{REPO}/cfg_samples/*') + glob.glob(f'{REPO}/parser/test_cfgs/*')):
        if os.path.isfile(p):
            try:
                t = open(p, encoding='utf-8').read()
            except Exception:
                continue
            inc[os.path.basename(p)] = t
    for name, t in inc.items():
        if name.endswith('.kbd'):
            out.append((name, t, inc))
    # docs: blocks between ---- lines that look like configurations
    for p in sorted(glob.glob(f'{REPO}/docs/*.adoc')):
        t = open(p, encoding='utf-8').read()
        for m in re.finditer(r'^----\n(.*?)^----$', t, re.S | re.M):
            blk = m.group(1)
            if '(' in blk and len(blk) < 20000:
                out.append((f'doc:{os.path.basename(p)}@{m.start()}', blk, inc))
    # tests: raw string / string literals containing defsrc
    for p in sorted(glob.glob(f'{REPO}/src/tests/**/*.rs', recursive=True) +
                    glob.glob(f'{REPO}/parser/src/cfg/tests/*.rs') + glob.glob(f'{REPO}/parser/src/cfg/tests.rs')):
        t = open(p, encoding='utf-8').read()
        for m in re.finditer(r'r#*"(.*?)"#*', t, re.S):
            blk = m.group(1)
            if 'defsrc' in blk and len(blk) < 20000:
                out.append((f'test:{os.path.basename(p)}@{m.start()}', blk, inc))
        for m in re.finditer(r'"((?:[^"\\]|\\.)*defsrc(?:[^"\\]|\\.)*)"', t, re.S):
            blk = m.group(1)
            if len(blk) < 5000 and '\\' not in blk:
                out.append((f'test:{os.path.basename(p)}@s{m.start()}', blk, inc))
    # fragments (no defsrc of their own) are completed so that the parser reaches them
    fixed = []
    for name, t, files in out:
        if 'defsrc' not in t:
            t = t + '\n(defsrc a b c)\n(deflayer frag-base a b c)\n'
        fixed.append((name, t, files))
    _corpus = fixed
    return fixed


BOUNDARY_NUMS = ['0', '1', '-1', '255', '256', '65535', '65536', '2147483647', '2147483648', '4294967295',
                 '4294967296', '18446744073709551615', '18446744073709551616', '99999999999999999999999',
                 '00', '1.5', '-0', '+1', '1e3', '0x10']
UNKNOWN = ['$nope', '@nope', 'nope', '$', '@', '$$a', '@@a', '""', 'r#""#', '"$selfv"', '$selfv', '$mutp', '$listm',
           '@selfal', '_', 'XX', '•', '∅', 'é', '🙂', 'lctl', 'S-', 'C-S-', 'A-a', '-', ':', "'", '`', '\\']
MULTI = ['é', '🙂', '漢', 'ß', ' ', ' ', '﻿', '́']
SELFREF = ('\n(defvar selfv $selfv)\n(defvar mutp $mutq mutq $mutp)\n(defvar listm (multi a $listm))\n'
           '(defalias selfal @selfal)\n')
TAILS = ['"', 'r#"', '#|', '(', ')', ';', ';;', 'r#', '#', '"\n', 'r#"é', '#|é', '"é', '(é', 'r#"x"', '|#', '"#',
         '(deftemplate t () (template-expand t))(template-expand t)', '(t! t)', '(include x)', '(include included-file.kbd)',
         '(defvar)', '(defvar a)', '(defalias)', '(defalias a)', '(deflayer)', '(defsrc)', '(defcfg)', '()', '(())',
         '(deflayermap)', '(deflayermap (x))', '(defchords)', '(defchords a)', '(defchords a 0)', '(defseq)', '(defseq a)',
         '(defoverrides)', '(defoverrides ())', '(deffakekeys)', '(deffakekeys a)', '(defvirtualkeys a)', '(defzippy)',
         '(defzippy x)', '(defchordsv2)', '(defchordsv2 (a))', '(defchordsv2 (a b) c)', '(deftemplate)', '(deftemplate a)',
         '(template-expand)', '(platform)', '(platform ())', '(environment)', '(environment ())', '(deflocalkeys-linux a)',
         '(deflocalkeys-linux a 99999)', '(defaliasenvcond)', '(defaliasenvcond ())', '(defaliasenvcond (a))',
         '(if-equal)', '(defhands)', '(defcfg a)', '(defcfg () ())', '(defsrc ())', '(deflayer ())', '(deflayer (a))',
         '(deflayer (a icon))', '(defvar a (concat))', '(defvar a (concat ()))', '(defvar () a)']


def mutate(rng: random.Random, text: str, others):
    """one mutation step -> (new text, label)"""
    b = text.encode()
    atoms, lists = subexprs(b)
    kind = rng.choice(['del', 'dup', 'swap', 'splice', 'empty', 'num', 'name', 'selfref', 'bytes', 'tail', 'trunc',
                       'unbal', 'argdrop', 'argdrop', 'empty', 'name'])
    anyx = atoms + lists
    if not anyx:
        kind = 'tail'
    def pick(xs):
        return xs[rng.randrange(len(xs))]
    try:
        if kind == 'del':
            s, e, _ = pick(anyx)
            return (b[:s] + b[e:]).decode(), kind
        if kind == 'dup':
            s, e, _ = pick(anyx)
            return (b[:e] + b' ' + b[s:e] + b[e:]).decode(), kind
        if kind == 'swap':
            (s1, e1, _), (s2, e2, _) = pick(anyx), pick(anyx)
            if e1 <= s2:
                return (b[:s1] + b[s2:e2] + b[e1:s2] + b[s1:e1] + b[e2:]).decode(), kind
            if e2 <= s1:
                return (b[:s2] + b[s1:e1] + b[e2:s1] + b[s2:e2] + b[e1:]).decode(), kind
            return (b[:s1] + b[s2:e2] + b[e1:]).decode(), 'replace-nested'
        if kind == 'splice':
            ot = pick(others).encode() if others else b
            oa, ol = subexprs(ot)
            src = oa + ol
            if not src:
                return text + '()', 'tail'
            s2, e2, _ = pick(src)
            s, e, _ = pick(anyx)
            if rng.random() < 0.5:
                return (b[:s] + ot[s2:e2] + b[e:]).decode(), 'splice-replace'
            return (b[:e] + b' ' + ot[s2:e2] + b[e:]).decode(), 'splice-insert'
        if kind == 'empty':
            s, e, _ = pick(anyx)
            return (b[:s] + rng.choice([b'()', b'(())', b'( )', b'(() ())']) + b[e:]).decode(), kind
        if kind == 'num':
            nums = [a for a in atoms if re.fullmatch(rb'-?\d+', b[a[0]:a[1]])]
            s, e, _ = pick(nums) if nums and rng.random() < 0.8 else pick(anyx)
            return (b[:s] + rng.choice(BOUNDARY_NUMS).encode() + b[e:]).decode(), kind
        if kind == 'name':
            s, e, _ = pick(atoms) if atoms else pick(anyx)
            v = rng.choice(UNKNOWN)
            t = (b[:s] + v.encode() + b[e:]).decode()
            if 'selfv' in v or 'mutp' in v or 'listm' in v or 'selfal' in v:
                t = t + SELFREF
            return t, kind
        if kind == 'selfref':
            s, e, _ = pick(anyx)
            v = rng.choice(['$selfv', '$mutp', '$listm', '@selfal', '"$selfv"'])
            t = (b[:s] + v.encode() + b[e:]).decode()
            return (SELFREF + t) if rng.random() < 0.5 else (t + SELFREF), kind
        if kind == 'argdrop':
            # drop / add trailing arguments of a list: exercises the argument-count checks
            s, e, _ = pick(lists) if lists else pick(anyx)
            inner_a, inner_l = subexprs(b[s + 1:e - 1]) if e - s >= 2 else ([], [])
            top = [x for x in inner_a + inner_l if x[2] == 0]
            top.sort()
            if not top:
                return (b[:s] + b'()' + b[e:]).decode(), 'empty'
            k = rng.randrange(len(top) + 1)
            if k == len(top):
                return (b[:e - 1] + b' ' + b[s + 1 + top[-1][0]:s + 1 + top[-1][1]] + b')' + b[e:]).decode(), 'argadd'
            cut = s + 1 + top[k][0]
            return (b[:cut] + b')' + b[e:]).decode(), kind
        if kind == 'bytes':
            t = text
            for _ in range(rng.randint(1, 4)):
                p = rng.randrange(len(t) + 1)
                op = rng.random()
                if op < 0.4:
                    t = t[:p] + rng.choice(MULTI) + t[p:]
                elif op < 0.6 and t:
                    t = t[:p] + t[p + 1:]
                elif op < 0.8:
                    t = t[:p] + rng.choice(['"', '(', ')', ';;', '#|', '|#', 'r#"', '"#', '\n', '\r', '\x0c', '\x00', '$', '@', '\t'])\
                        + t[p:]
                else:
                    q = min(len(t), p + rng.randint(1, 30))
                    t = t[:p] + t[q:]
            return t, kind
        if kind == 'tail':
            tl = rng.choice(TAILS)
            return (text + '\n' + tl) if rng.random() < 0.7 else (tl + '\n' + text), kind
        if kind == 'trunc':
            p = rng.randrange(len(text) + 1)
            return text[:p], kind
        if kind == 'unbal':
            p = rng.randrange(len(text) + 1)
            d = rng.choice([1, 2, 5, 40])
            return text[:p] + rng.choice(['(', ')']) * d + text[p:], kind
    except UnicodeDecodeError:
        pass
    return text, 'noop'


def hx(s: str) -> str:
    return binascii.hexlify(s.encode()).decode() or '-'


# ---------------------------------------------------------------------------------------------
# systematic per-construct enumeration: every list head x element class, every truncation point,
# every element replaced by () / boundary values
# ---------------------------------------------------------------------------------------------
def _elem_class(b, s, e, is_list):
    t = b[s:e]
    if is_list:
        m = re.match(rb'\(\s*([^\s()"]+)', t)
        return 'list:' + (m.group(1).decode('utf8', 'replace') if m else '')
    if re.fullmatch(rb'-?\d+', t):
        return 'num'
    if t[:1] == b'$':
        return '$'
    if t[:1] == b'@':
        return '@'
    if t[:1] == b'"' or t[:2] == b'r#':
        return 'str'
    if t[-1:] == b'-' and len(t) > 1:
        return 'X-'
    return 'atom'


def children(b, s, e):
    """top-level elements of the list b[s:e] -> [(start, end, is_list)] in absolute offsets"""
    inner = b[s + 1:e - 1]
    atoms, lists = subexprs(inner)
    top = [(x[0] + s + 1, x[1] + s + 1, False) for x in atoms if x[2] == 0] + \
          [(x[0] + s + 1, x[1] + s + 1, True) for x in lists if x[2] == 0]
    top.sort()
    return top


_constructs = None


def constructs(max_cfg=6000):
    """[(head, cls, cfg_index, s, e)] one instance per (head, element class) pair, from the smallest configuration"""
    global _constructs
    if _constructs is not None:
        return _constructs
    best = {}
    for ci, (name, t, _) in enumerate(corpus()):
        if len(t) > max_cfg:
            continue
        b = t.encode()
        _, lists = subexprs(b)
        for s, e, d in lists:
            ch = children(b, s, e)
            if not ch or ch[0][2]:
                continue
            head = b[ch[0][0]:ch[0][1]].decode('utf8', 'replace')
            for (cs, ce, il) in ch[1:]:
                k = (head, _elem_class(b, cs, ce, il).split(':')[0] if il else _elem_class(b, cs, ce, il))
                cur = best.get(k)
                if cur is None or (len(t), e - s) < cur[0]:
                    best[k] = ((len(t), e - s), ci, s, e)
    _constructs = sorted((k[0], k[1], v[1], v[2], v[3]) for k, v in best.items())
    return _constructs


REPL = ['()', '0', '65536', '-1', '$nope', 'S-', '"x"']


def construct_variants(ci, s, e, deep=True):
    """texts derived from configuration ci by editing the list at [s,e): truncation after every element
    (at every nesting level when deep), every element replaced by each of REPL, one element duplicated"""
    name, t, files = corpus()[ci]
    b = t.encode()
    out = []
    todo = [(s, e)]
    seen = 0
    while todo and seen < 6:
        ls, le = todo.pop(0)
        seen += 1
        ch = children(b, ls, le)
        for i, (cs, ce, il) in enumerate(ch):
            out.append((b[:ce] + b')' + b[le:], 'cut'))            # keep elements 0..i
            if i > 0:
                for r in REPL:
                    out.append((b[:cs] + r.encode() + b[ce:], 'repl'))
            if il and deep:
                todo.append((cs, ce))
        if ch:
            out.append((b[:ch[0][0]] + b[ch[0][1]:], 'nohead'))
            out.append((b[:le - 1] + b' ' + b[ch[-1][0]:ch[-1][1]] + b')' + b[le:], 'extra'))
        out.append((b[:ls] + b'()' + b[le:], 'empty'))
    res = []
    for x, lab in out:
        try:
            res.append((x.decode(), lab, files))
        except UnicodeDecodeError:
            pass
    return res


def selfref_catalogue():
    out = []
    for sp in ('template-expand', 't!'):
        out += ['(deftemplate a () (%s a)) (%s a)' % (sp, sp),
                '(deftemplate a () (%s b)) (deftemplate b () (%s a)) (%s b)' % (sp, sp, sp),
                '(deftemplate a () (x (%s a) (%s a))) (%s a)' % (sp, sp, sp),
                '(deftemplate a (v) (%s a $v)) (%s a 1)' % (sp, sp),
                '(deftemplate a (v) $v) (%s a (%s a 1))' % (sp, sp),
                '(deftemplate a () (if-equal 1 1 (%s a))) (%s a)' % (sp, sp),
                # a call put together at expansion time: the head from a parameter, from a conditional, growing per round
                '(deftemplate a (x) ($x a $x)) (%s a %s)' % (sp, sp),
                '(deftemplate a (x) ($x a $x) ($x a $x)) (%s a %s)' % (sp, sp),
                '(deftemplate a (x) ((if-equal k k %s) a $x)) (%s a k)' % (sp, sp),
                '(deftemplate a (x y) ($x $y $x $y)) (%s a %s a)' % (sp, sp),
                '(deftemplate b (x) $x) (deftemplate a (x) ((%s b $x) a $x)) (%s a %s)' % (sp, sp, sp)]
    # degenerate lists inside items that index what they were given: an empty action list, a modifier prefix on nothing
    for it in ('(tap-dance 200 ())', '(tap-dance-eager 200 ())', '(macro C-S-())', '(macro C-())', '(multi)', '(fork a b ())',
               '(switch)', '(switch ())', '(one-shot 100 (multi))', '(tap-hold 1 1 (multi) (multi))', '(chord)', '(unmod)', '(unicode)'):
        out.append('(defalias kvx %s)' % it)
    # a top-level block that may appear once, written twice: the same spelling and, where a block has two spellings, one of each
    once = ['(defcfg)', '(defsrc a b)', '(defoverrides (a) (b))', '(defzippy-experimental x)', '(defzippy x)',
            '(defchordsv2 (a b) c 50 all-released ())', '(defchordsv2-experimental (a b) c 50 all-released ())',
            '(deflocalkeys-linux kvl 300)', '(defhands (left a) (right b))']
    for a in once:
        for b in once:
            if a.split()[0].rstrip(')').replace('-experimental', '') == b.split()[0].rstrip(')').replace('-experimental', ''):
                out.append('(defcfg concurrent-tap-hold yes)' * (0 if 'defcfg' in a else 1) + a + '\n' + b)
    for sq in ('(C-S-())', '(C-S- ())', '(S-())', '(O-())', '(O-(a))', '(C-O-(a b))', '(S-(a) C-())', '()'):
        out.append('(defvirtualkeys kvv x) (defseq kvv %s)' % sq)
    # the include form in every place that reads one (top level, defchordsv2): no name, a list, a missing file, a file of the
    # wrong kind (lines without a tab)
    for inc in ('(include)', '(include (a))', '(include nofile-kv.txt)', '(include "no file.kbd")', '(include a b)',
                '(include /verif/harness/Cargo.toml)', '(include /verif)', '(include "")'):
        out += [inc, '(defchordsv2 %s x 100 all-released ())' % inc, '(defchordsv2 %s () 100 all-released (base))' % inc,
                '(defchordsv2 %s)' % inc, '(deflayer inc %s)' % inc, '(defalias i %s)' % inc]
    out += ['(defvar a $a) (defalias x $a)', '(defvar a $b b $a) (defalias x $b)', '(defvar a (multi $a)) (defalias x $a)',
            '(defvar a (concat $a)) (defalias x $a)', '(defvar a (concat b $c) c $a) (defalias x $a)',
            '(defalias x @x)', '(defalias x (multi @y) y @x)', '(defalias x (tap-hold 1 1 @x @x))',
            '(deflayermap (l) a @zz)', '(defvirtualkeys v (on-press tap-vkey v))', '(deffakekeys v (on-press-fakekey v tap))',
            '(defchords c 10 (a) (chord c a))', '(defseq s (a)) (defvirtualkeys s (sequence 10))']
    return out


def capacity_catalogue():
    """complete configurations at every documented capacity and one or two beyond it: the table a count indexes must be as long as
    the check before it allows"""
    out = []
    base = '(defsrc a b)\n(deflayer base a b)\n'
    for n in (765, 766, 767, 768, 769, 770):
        names = ' '.join('v%d x' % i for i in range(n))
        out.append(('vkeys-%d' % n, base + '(defvirtualkeys %s)' % names))
        out.append(('fakekeys-%d' % n, base + '(deffakekeys %s)' % names))
        half = n // 2
        out.append(('fake+vkeys-%d' % n, base + '(deffakekeys %s)\n(defvirtualkeys %s)' % (
            ' '.join('f%d x' % i for i in range(half)), ' '.join('v%d y' % i for i in range(n - half)))))
        out.append(('vkeys-used-%d' % n, '(defsrc a b)\n(deflayer base (on-press tap-vkey v%d) (on-press press-vkey v0))\n(defvirtualkeys %s)' % (n - 1, names)))
    for n in (765, 766, 767, 768, 769, 1000, 65535, 65536):
        # a local key name bound to a code at / beyond the width of the layer tables, used in defsrc and in a layer
        out.append(('localkey-src-%d' % n, '(deflocalkeys-linux foo %d)\n(defsrc foo)\n(deflayer base a)' % n))
        out.append(('localkey-act-%d' % n, '(deflocalkeys-linux foo %d)\n(defsrc a)\n(deflayer base foo)' % n))
        out.append(('localkey-map-%d' % n, '(deflocalkeys-linux foo %d)\n(defsrc a)\n(deflayer base a)\n(deflayermap (m) foo b)' % n))
    for n in (126, 127, 128, 129, 130):
        keys = ' '.join('(k%d) a' % i for i in range(n))
        out.append(('chord-keys-%d' % n, '(defsrc a b)\n(deflayer base (chord g k0) (chord g k%d))\n(defchords g 100 %s)' % (n - 1, keys)))
    for n in (5, 6, 7, 8):
        ks = 'a b c d e f g h'.split()[:n]
        out.append(('overlap-%d' % n, '(defsrc %s)\n(deflayer base %s)\n(defvirtualkeys v x)\n(defseq v (O-(%s)))' % (' '.join(ks), ' '.join(ks), ' '.join(ks))))
    for d in (7, 8, 9, 10):
        e = 'a'
        for _ in range(d - 1):
            e = '(and %s)' % e
        out.append(('switch-depth-%d' % d, '(defsrc a b)\n(deflayer base (switch (%s) x break) b)' % e))
    for n in (4093, 4094, 4095, 4096, 4097):
        out.append(('switch-items-%d' % n, '(defsrc a b)\n(deflayer base (switch ((or %s)) x break) b)' % ' '.join(['a'] * n)))
    for n in (255, 256, 257, 1000):
        out.append(('tap-dance-%d' % n, '(defsrc a b)\n(deflayer base (tap-dance 100 (%s)) b)' % ' '.join(['x'] * n)))
        out.append(('multi-%d' % n, '(defsrc a b)\n(deflayer base (multi %s) b)' % ' '.join(['x'] * n)))
        out.append(('macro-%d' % n, '(defsrc a b)\n(deflayer base (macro %s) b)' % ' '.join(['x'] * n)))
        out.append(('seq-len-%d' % n, '(defsrc a b)\n(deflayer base a b)\n(defvirtualkeys v x)\n(defseq v (%s))' % ' '.join(['a'] * n)))
    for n in (24, 25, 26, 100):
        out.append(('layers-%d' % n, '(defsrc a b)\n' + '\n'.join('(deflayer l%d a (layer-while-held l%d))' % (i, (i + 1) % n) for i in range(n))))
    return out
