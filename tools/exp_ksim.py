#!/usr/bin/env python3
"""Experiment: random configs+histories, kanata-level correspondence model vs implementation."""
import sys, os, random, collections
sys.path.insert(0, os.path.dirname(__file__))
import kvlib, gen

def ktoks(h, rng, repeat_p=0.1, query_p=0.05):
    out = []
    down = set()
    for t in h:
        if t[0] == 'p':
            c = int(t.split(',')[1]); out.append('d%d' % c); down.add(c)
        elif t[0] == 'r':
            c = int(t.split(',')[1]); out.append('u%d' % c); down.discard(c)
        else:
            out.append(t)
            if down and rng.random() < repeat_p:
                out.append('r%d' % rng.choice(sorted(down)))
            if rng.random() < query_p:
                out.append('q')
    return out

def main():
    profile = sys.argv[1] if len(sys.argv) > 1 else 'all'
    n = int(sys.argv[2]) if len(sys.argv) > 2 else 200
    seed = int(sys.argv[3]) if len(sys.argv) > 3 else 1
    mode = sys.argv[4] if len(sys.argv) > 4 else 'consistent'
    rng = random.Random(seed)
    cases = []
    for i in range(n):
        g = gen.CfgGen(rng, profile)
        cfg = g.gen()
        keys = gen.codes_of(g.src)
        hg = gen.HistGen(rng, keys, gen.gaps_for(g.timeouts), extra_keys=[gen.KEYCODES['p'], gen.KEYCODES['o']])
        for j in range(3):
            h = hg.consistent(rng.randint(2, 14)) if mode == 'consistent' else hg.hostile(rng.randint(5, 60))
            h.append('t%d' % rng.choice([30, 300, 700]))
            cases.append({'id': '%s-%d-%d-%d' % (profile, seed, i, j), 'cfg': cfg, 'hist': ktoks(h, rng) + ['q']})
    res = kvlib.run_both('ksim', cases, 'expk')
    stats = collections.Counter()
    shown = 0
    byid = {c['id']: c for c in cases}
    for cid, (it, mt) in res.items():
        if it and it[0].startswith('PARSE-'):
            stats['parse-' + it[0]] += 1
            continue
        if mt and mt[0].startswith('UNSUPPORTED'):
            stats['unsupported'] += 1
            continue
        if kvlib.same_trace(it, mt):
            stats['agree'] += 1
            if kvlib.is_crash(it): stats['agree-crash'] += 1
        else:
            stats['MISMATCH'] += 1
            if shown < 3:
                shown += 1
                print('=== MISMATCH', cid)
                print(byid[cid]['cfg'])
                print('H', ' '.join(byid[cid]['hist']))
                a = it or ['<none>']; b = mt or ['<none>']
                k = 0
                while k < min(len(a), len(b)) and a[k] == b[k]: k += 1
                print('--- impl (from first difference)'); print('\n'.join(a[max(0,k-2):k+4])[:800])
                print('--- model'); print('\n'.join(b[max(0,k-2):k+4])[:800])
    print(dict(stats))

main()
