#!/usr/bin/env python3
"""Experiment: random configs+histories, layout-level correspondence model vs implementation."""
import sys, os, random, collections
sys.path.insert(0, os.path.dirname(__file__))
import kvlib, gen

def main():
    profile = sys.argv[1] if len(sys.argv) > 1 else 'all'
    n = int(sys.argv[2]) if len(sys.argv) > 2 else 200
    seed = int(sys.argv[3]) if len(sys.argv) > 3 else 1
    mode = sys.argv[4] if len(sys.argv) > 4 else 'consistent'
    rng = random.Random(seed)
    cases = []
    for i in range(n):
        g = gen.CfgGen(rng, profile)
        cfg = g.gen()
        keys = gen.codes_of(g.src)
        hg = gen.HistGen(rng, keys, gen.gaps_for(g.timeouts), extra_keys=[gen.KEYCODES['p'], gen.KEYCODES['o']])
        for j in range(3):
            h = hg.consistent(rng.randint(2, 14)) if mode == 'consistent' else hg.hostile(rng.randint(5, 60))
            h.append('t%d' % rng.choice([30, 300, 700]))
            cases.append({'id': '%s-%d-%d-%d' % (profile, seed, i, j), 'cfg': cfg, 'hist': h})
    res = kvlib.run_both('lsim', cases, 'exp')
    stats = collections.Counter()
    shown = 0
    byid = {c['id']: c for c in cases}
    for cid, (it, mt) in res.items():
        if it and it[0].startswith('PARSE-'):
            stats['parse-' + it[0]] += 1
            continue
        a, b = kvlib.canon_trace(it), kvlib.canon_trace(mt)
        if b and b[0].startswith('UNSUPPORTED'):
            stats['unsupported'] += 1
            continue
        if kvlib.same_trace(it, mt):
            stats['agree'] += 1
            if kvlib.is_crash(it): stats['agree-crash'] += 1
        else:
            stats['MISMATCH'] += 1
            if shown < 4:
                shown += 1
                print('=== MISMATCH', cid)
                print(byid[cid]['cfg'])
                print('H', ' '.join(byid[cid]['hist']))
                print('--- impl'); print('\n'.join(it or ['<none>'])[:1500])
                print('--- model'); print('\n'.join(mt or ['<none>'])[:1500])
    print(dict(stats))

main()
