import sys, os, random, collections, re
sys.path.insert(0, '/verif/tools')
import kvlib, cfgmut
from concurrent.futures import ThreadPoolExecutor
seed = int(sys.argv[1]); n = int(sys.argv[2])
rng = random.Random(seed)
corp = cfgmut.corpus()
print('corpus', len(corp))
texts = [t for _, t, _ in corp]
cases = []
for i in range(n):
    name, t, files = corp[rng.randrange(len(corp))]
    labels = []
    for _ in range(rng.choice([1, 1, 1, 2, 3])):
        t, l = cfgmut.mutate(rng, t, texts)
        labels.append(l)
    h = ['X', cfgmut.hx(t)]
    for fn in ('included-file.kbd', 'test.zch', 'included-good.kbd'):
        if fn in files: h += ['F', cfgmut.hx(fn), cfgmut.hx(files[fn])]
    cases.append({'id': 'm%d' % i, 'cfg': '', 'hist': h, 'labels': labels, 'src': name, 'text': t})
d = '/verif/build/runs/exp_ptot'; os.makedirs(d, exist_ok=True)
sh = 16
parts = [cases[i::sh] for i in range(sh)]
def work(i):
    cf = f'{d}/c{i}.txt'; kvlib.write_cases(cf, parts[i])
    kvlib.run_impl_shard('ptot', cf, len(parts[i]), [c['id'] for c in parts[i]], f'{d}/o{i}.txt', 120)
    return kvlib.split_blocks(open(f'{d}/o{i}.txt', encoding='utf-8').read())
res = {}
with ThreadPoolExecutor(sh) as ex:
    for r in ex.map(work, range(sh)): res.update(r)
cnt = collections.Counter(); ex_ = {}
for c in cases:
    tr = kvlib.trace_of(res.get(c['id'], [])) or ['<none>']
    l = tr[-1] if tr else '<empty>'
    key = re.sub(r'\d+', 'N', l)[:150]
    if l.startswith('REJECTED') and 'OUTSIDE' not in l: key = 'REJECTED'
    cnt[key] += 1
    if key not in ex_ or len(c['text']) < len(ex_[key]['text']): ex_[key] = c
for k, v in cnt.most_common(): print(v, k)
for k, c in ex_.items():
    if k not in ('REJECTED', 'ACCEPTED'):
        open(f'{d}/ex_{abs(hash(k))%10000}.kbd', 'w').write(c['text'])
        print('EX', k[:60], c['labels'], c['src'], len(c['text']), f'{d}/ex_{abs(hash(k))%10000}.kbd')
