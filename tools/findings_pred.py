"""Predicates over a configuration text used by known_findings.json (`cfg_pred`)."""
import re
import cfgmut

DEFERRED = re.compile(rb'^(tap-dance(-eager)?|tap-hold[a-z-]*|one-shot[a-z-]*|switch|defvirtualkeys|deffakekeys|defchords|defchordsv2|defseq)$')


def rpt_any_deferred(cfg: str) -> bool:
    """`rpt-any` occurs where it runs later than the press that selected it: inside a tap-dance / tap-hold list, a switch case (performed from the
    action queue in a later tick), a virtual key definition or a chord table.  There the action it repeats can be the very action that scheduled it."""
    b = cfg.encode()
    atoms, lists = cfgmut.subexprs(b)
    heads = {}
    for s, e, d in lists:
        m = re.match(rb'\(\s*([^\s()"]+)', b[s:e])
        heads[(s, e)] = m.group(1) if m else b''
    for s, e, d in atoms:
        if b[s:e] != b'rpt-any':
            continue
        for (ls, le), h in heads.items():
            if ls < s and e < le and DEFERRED.match(h):
                return True
    return False


PREDICATES = {'rpt_any_deferred': rpt_any_deferred}
