"""Generators for configurations (kanata text) and histories.  Every random choice derives from the
random.Random instance handed in (seeded from VERIF_SEED), so cases replay exactly."""
import random

KEYCODES = {
    'a': 30, 's': 31, 'd': 32, 'f': 33, 'g': 34, 'h': 35, 'j': 36, 'k': 37, 'l': 38,
    'q': 16, 'w': 17, 'e': 18, 'r': 19, 't': 20, 'y': 21, 'u': 22, 'i': 23, 'o': 24, 'p': 25,
    'z': 44, 'x': 45, 'c': 46, 'v': 47, 'b': 48, 'n': 49, 'm': 50,
    'lsft': 42, 'rsft': 54, 'lctl': 29, 'rctl': 97, 'lalt': 56, 'ralt': 100, 'lmet': 125, 'rmet': 126,
    'spc': 57, 'ret': 28, 'tab': 15, 'esc': 1, 'bspc': 14,
    '1': 2, '2': 3, '3': 4, '4': 5, '5': 6, '6': 7, '7': 8, '8': 9, '9': 10, '0': 11,
    'f1': 59, 'f2': 60, 'f3': 61, 'f4': 62,
}
SRC_POOL = ['a', 's', 'd', 'f', 'g', 'h', 'j', 'k', 'l', 'q', 'w', 'e']
OUT_KEYS = ['x', 'y', 'z', 'c', 'v', 'b', 'n', 'm', '1', '2', '3', '4', 'lsft', 'lctl', 'lalt', 'rsft', 'spc']
MODS = ['lsft', 'lctl', 'lalt', 'rsft', 'rctl', 'ralt', 'lmet']
MOD_PREFIX = ['S-', 'C-', 'A-', 'M-', 'RA-']

# action kinds by family
K_BASIC = ['key', 'chordout', 'multi', 'xx', 'trans', 'src', 'lwh', 'lsw', 'relkey', 'rellayer']
K_TAPHOLD = ['taphold']
K_ONESHOT = ['oneshot']
K_TAPDANCE = ['tapdance']
K_MACRO = ['macro']
K_FORK = ['fork', 'switch']
K_RPT = ['rpt']
K_CUSTOM = ['mouse', 'unicode', 'vkeyact', 'capsword', 'unmod', 'dynmacro', 'seqleader', 'osi', 'cancelseq']
K_CHORD1 = ['chord1']

PROFILES = {
    'c04': dict(kinds=K_BASIC + ['lwh', 'lwh', 'relkey', 'rellayer'], depth=2, out_keys=['x', 'y', 'lsft', 'lctl']),
    'c05': dict(kinds=K_BASIC[:4] + K_TAPHOLD + ['lwh'], depth=2),
    'c06': dict(kinds=['key', 'chordout', 'xx', 'lwh'] + K_ONESHOT, depth=2),
    'c17': dict(kinds=['key', 'chordout', 'xx', 'lwh', 'taphold'] + K_TAPDANCE, depth=2),
    'c08': dict(kinds=['key', 'xx', 'lwh'] + K_MACRO, depth=2),
    'c09': dict(kinds=['key', 'chordout', 'xx', 'lwh', 'taphold'] + K_CHORD1, depth=2),
    'c10': dict(kinds=['key', 'xx', 'lwh', 'multi'] + K_FORK, depth=2),
    'c14': dict(kinds=['key', 'key', 'chordout', 'multi', 'taphold', 'tapdance', 'oneshot', 'fork', 'switch', 'chord1', 'unmod', 'src', 'trans', 'lwh', 'lwh', 'xx'], depth=3, overrides=True),
    'c01': dict(kinds=K_BASIC + K_TAPHOLD + K_ONESHOT + K_TAPDANCE + K_MACRO + K_FORK + K_RPT + K_CUSTOM + K_CHORD1,
                depth=3, tag='all', balanced_vkeys=True),
    'all': dict(kinds=K_BASIC + K_TAPHOLD + K_ONESHOT + K_TAPDANCE + K_MACRO + K_FORK + K_RPT + K_CUSTOM + K_CHORD1,
                depth=3, tag='all'),
}

TIMEOUTS = [1, 2, 5, 20, 50, 100, 200]


class CfgGen:
    def __init__(self, rng: random.Random, profile='all', nlayers=None, nkeys=None, opts=None):
        self.rng = rng
        self.p = PROFILES[profile]
        self.kinds = list(self.p['kinds'])
        self.nlayers = nlayers or rng.choice([1, 2, 2, 3, 4])
        self.nkeys = nkeys or rng.randint(2, 6)
        self.src = SRC_POOL[:self.nkeys]
        self.layer_names = ['l%d' % i for i in range(self.nlayers)]
        self.vkeys = []
        self.chord_groups = []
        self.timeouts = set()
        self.aliases = []
        self.opts = opts

    # ---- pieces
    def key(self):
        return self.rng.choice(self.p.get('out_keys', OUT_KEYS))

    def timeout(self):
        t = self.rng.choice(TIMEOUTS)
        self.timeouts.add(t)
        return t

    def layer(self):
        return self.rng.choice(self.layer_names)

    def simple(self):
        r = self.rng.random()
        if r < 0.6:
            return self.key()
        if r < 0.75:
            return self.rng.choice(MOD_PREFIX) + self.rng.choice(['x', 'y', 'z', '1', '2'])
        if r < 0.9:
            return '(layer-while-held %s)' % self.layer()
        return 'XX'

    def macro_items(self, depth=0):
        n = self.rng.randint(1, 5)
        items = []
        for _ in range(n):
            r = self.rng.random()
            if r < 0.5:
                items.append(self.rng.choice(['x', 'y', 'z', 'b', 'n', '1', '2']) if self.rng.random() < 0.8 else
                             self.rng.choice(['@', ''])[:0] + self.rng.choice(['x', 'y']))
            elif r < 0.7:
                items.append(str(self.rng.choice([1, 2, 5, 10, 30])))
            elif r < 0.8:
                items.append(self.rng.choice(['S-', 'C-', 'A-']) + self.rng.choice(['x', 'y', 'z']))
            elif r < 0.9:
                items.append(self.rng.choice(['(unicode r)', '(unicode é)', 'mlft', '(mwheel-up 50 120)', '(on-press-delay 1)']))
            elif depth < 1:
                items.append(self.rng.choice(['S-', 'C-']) + '(' + ' '.join(self.macro_items(depth + 1)) + ')')
            else:
                items.append('x')
        return items

    def bool_expr(self, depth=0):
        r = self.rng.random()
        leafs = OUT_KEYS[:8]
        if depth >= 3 or r < 0.45:
            rr = self.rng.random()
            if rr < 0.6:
                return self.rng.choice(leafs)
            if rr < 0.7:
                return '(key-history %s %d)' % (self.rng.choice(leafs), self.rng.randint(1, 8))
            if rr < 0.8:
                return '(key-timing %d %s %d)' % (self.rng.randint(1, 8), self.rng.choice(['lt', 'gt']),
                                                  self.rng.choice([1, 5, 50, 255, 256, 300, 2303, 2304, 5000]))
            if rr < 0.87:
                return '(input real %s)' % self.rng.choice(self.src)
            if rr < 0.92:
                return '(input-history real %s %d)' % (self.rng.choice(self.src), self.rng.randint(1, 8))
            if rr < 0.96:
                return '(layer %s)' % self.layer()
            return '(base-layer %s)' % self.layer()
        op = self.rng.choice(['and', 'or', 'not'])
        n = self.rng.randint(1, 3)
        return '(%s %s)' % (op, ' '.join(self.bool_expr(depth + 1) for _ in range(n)))

    def action(self, depth=0, ctx='layer', nowait=False):
        """ctx: layer | nested.  nowait: no tap-hold/tap-dance/chord (waiting) actions allowed."""
        kinds = self.kinds
        if depth >= self.p['depth']:
            return self.simple()
        for _ in range(20):
            k = self.rng.choice(kinds)
            if k in ('taphold', 'tapdance', 'chord1') and nowait:
                continue
            if k in ('trans', 'chord1') and ctx != 'layer':
                continue
            break
        else:
            return self.simple()
        rng = self.rng
        if k == 'key':
            return self.key()
        if k == 'chordout':
            return rng.choice(MOD_PREFIX) + rng.choice(['x', 'y', 'z', '1', '2'])
        if k == 'multi':
            n = rng.randint(2, 3)
            parts = []
            waited = nowait
            for _ in range(n):
                a = self.action(depth + 1, 'nested', nowait=waited)
                if a.startswith('(tap-hold') or a.startswith('(tap-dance'):
                    waited = True
                # transparent items nested in a multi of a layer cell (each continues the search below the layer of the multi),
                # also several of them and inside an inner multi
                if ctx == 'layer' and 'trans' in self.kinds and rng.random() < 0.3:
                    a = rng.choice(['_', '_', '(multi %s _)' % rng.choice(['lsft', 'lctl', 'x'])])
                parts.append(a)
            return '(multi %s)' % ' '.join(parts)
        if k == 'xx':
            return 'XX'
        if k == 'trans':
            return '_'
        if k == 'src':
            return 'use-defsrc'
        if k == 'lwh':
            return '(layer-while-held %s)' % self.layer()
        if k == 'lsw':
            return '(layer-switch %s)' % self.layer()
        if k == 'relkey':
            return '(release-key %s)' % rng.choice(['lsft', 'lctl', 'x', 'y'])
        if k == 'rellayer':
            return '(release-layer %s)' % self.layer()
        if k == 'taphold':
            variant = rng.choice(['tap-hold', 'tap-hold-press', 'tap-hold-release', 'tap-hold-press-timeout',
                                  'tap-hold-release-timeout', 'tap-hold-release-keys', 'tap-hold-except-keys'])
            tt = rng.choice([0, 0, 50, 200])
            ht = self.timeout()
            tap = self.action(depth + 1, 'nested', nowait=True)
            hold = self.action(depth + 1, 'nested', nowait=True)
            if variant.endswith('-timeout'):
                return '(%s %d %d %s %s %s)' % (variant, tt, ht, tap, hold, self.action(depth + 1, 'nested', nowait=True))
            if variant.endswith('-keys'):
                ks = rng.sample(self.src, rng.randint(1, min(2, len(self.src))))
                return '(%s %d %d %s %s (%s))' % (variant, tt, ht, tap, hold, ' '.join(ks))
            return '(%s %d %d %s %s)' % (variant, tt, ht, tap, hold)
        if k == 'oneshot':
            variant = rng.choice(['one-shot', 'one-shot-press', 'one-shot-release', 'one-shot-press-pcancel',
                                  'one-shot-release-pcancel'])
            inner = rng.choice([rng.choice(MODS), rng.choice(MODS), 'C-S-lalt', '(layer-while-held %s)' % self.layer()])
            return '(%s %d %s)' % (variant, self.timeout(), inner)
        if k == 'tapdance':
            n = rng.randint(1, 4)
            eager = rng.random() < 0.4
            acs = ' '.join(self.action(depth + 1, 'nested', nowait=eager) for _ in range(n))
            return '(%s %d (%s))' % ('tap-dance-eager' if eager else 'tap-dance', self.timeout(), acs)
        if k == 'macro':
            variant = rng.choice(['macro', 'macro', 'macro-release-cancel', 'macro-repeat', 'macro-repeat-release-cancel',
                                  'macro-cancel-on-press', 'macro-release-cancel-and-cancel-on-press'])
            return '(%s %s)' % (variant, ' '.join(self.macro_items()))
        if k == 'fork':
            return '(fork %s %s (%s))' % (self.action(depth + 1, 'nested', nowait), self.action(depth + 1, 'nested', nowait),
                                          ' '.join(rng.sample(MODS, rng.randint(1, 2))))
        if k == 'switch':
            n = rng.randint(1, 3)
            cases = []
            for _ in range(n):
                cond = '(%s)' % ' '.join(self.bool_expr(1) for _ in range(rng.randint(0, 2)))
                cases.append('%s %s %s' % (cond, self.action(depth + 1, 'nested', nowait), rng.choice(['break', 'fallthrough'])))
            return '(switch %s)' % ' '.join(cases)
        if k == 'rpt':
            return rng.choice(['rpt', 'rpt-any'])
        if k == 'mouse':
            return rng.choice(['mlft', 'mrgt', 'mltp', '(mwheel-up 50 120)', '(mwheel-left 10 120)', '(movemouse-up 5 1)',
                               '(movemouse-left 7 2)', '(movemouse-accel-down 3 100 1 5)', '(movemouse-speed 200)'])
        if k == 'unicode':
            return '(unicode %s)' % rng.choice(['r', 'é', '😀'])
        if k == 'vkeyact':
            if not self.vkeys:
                return self.key()
            v = rng.choice(self.vkeys)
            return rng.choice(['(on-press %s %s)', '(on-release %s %s)']) % (
                rng.choice(['release-vkey', 'tap-vkey'] if self.p.get('balanced_vkeys') else ['press-vkey', 'release-vkey', 'tap-vkey', 'toggle-vkey']), v) if rng.random() < 0.7 else \
                '(hold-for-duration %d %s)' % (self.timeout(), self.vkeys[0])   # one hold-for vkey: hash-map order is observable otherwise
        if k == 'capsword':
            return '(caps-word %d)' % rng.choice([50, 200])
        if k == 'unmod':
            return '(%s %s)' % (rng.choice(['unmod', 'unshift']), rng.choice(['x', 'y', '1']))
        if k == 'dynmacro':
            return rng.choice(['(dynamic-macro-record 1)', 'dynamic-macro-record-stop', '(dynamic-macro-play 1)',
                               '(dynamic-macro-record-stop-truncate 1)'])
        if k == 'seqleader':
            return rng.choice(['sldr', '(sequence 50)'])
        if k == 'osi':
            return '(one-shot-pause-processing %d)' % rng.choice([5, 20])
        if k == 'cancelseq':
            return rng.choice(['(on-press-delay 5)', '(on-release-delay 5)', 'reverse-release-order'][:2])
        if k == 'chord1':
            if not self.chord_groups:
                return self.key()
            g, keys = rng.choice(self.chord_groups)
            return '(chord %s %s)' % (g, rng.choice(keys))
        return self.key()

    def gen(self):
        rng = self.rng
        lines = []
        o = self.opts if self.opts is not None else {}
        if self.opts is None:
            if rng.random() < 0.5:
                o['process-unmapped-keys'] = rng.choice(['yes', 'no'])
            if rng.random() < 0.3:
                o['block-unmapped-keys'] = rng.choice(['yes', 'no'])
            if rng.random() < 0.4:
                o['delegate-to-first-layer'] = rng.choice(['yes', 'no'])
            if rng.random() < 0.4:
                o['concurrent-tap-hold'] = rng.choice(['yes', 'no'])
            if rng.random() < 0.3:
                o['rapid-event-delay'] = rng.choice(['5', '1', '20'])
            if rng.random() < 0.3:
                o['transparent-key-resolution'] = rng.choice(['to-base-layer', 'layer-stack'])
            if 'all' in self.p.get('tag', ''):
                if rng.random() < 0.2:
                    o['sequence-input-mode'] = rng.choice(['hidden-suppressed', 'hidden-delay-type', 'visible-backspaced'])
                if rng.random() < 0.15:
                    o['sequence-timeout'] = rng.choice(['20', '200'])
                if rng.random() < 0.1:
                    o['override-release-on-activation'] = rng.choice(['yes', 'no'])
                if rng.random() < 0.1:
                    o['dynamic-macro-replay-delay-behaviour'] = rng.choice(['constant', 'recorded'])
                if rng.random() < 0.05:
                    o['movemouse-smooth-diagonals'] = 'yes'
                # numeric options at the ends of their u16 range (arithmetic on them must not overflow)
                if rng.random() < 0.15:
                    o['dynamic-macro-max-presses'] = rng.choice(['0', '1', '3', '32767', '32768', '65535'])
                if rng.random() < 0.05:
                    o['sequence-timeout'] = rng.choice(['1', '2'])      # (a large value only stretches the run: the drains are bounded)
                if rng.random() < 0.05:
                    o['rapid-event-delay'] = rng.choice(['0', '2'])
                if rng.random() < 0.05:
                    o['sequence-always-on'] = 'yes'
                if rng.random() < 0.05:
                    o['sequence-backtrack-modcancel'] = rng.choice(['yes', 'no'])
        lines.append('(defcfg %s)' % ' '.join('%s %s' % kv for kv in o.items()))
        lines.append('(defsrc %s)' % ' '.join(self.src))
        if 'vkeyact' in self.kinds and rng.random() < 0.7:
            self.vkeys = ['v%d' % i for i in range(rng.randint(1, 3))]
        if 'chord1' in self.kinds and rng.random() < 0.8:
            for gi in range(rng.randint(1, 2) if self.nkeys * self.nlayers >= 8 else 1):
                names = ['c%d' % i for i in range(rng.randint(2, min(4, self.nkeys)))]
                self.chord_groups.append(('g%d' % gi, names))
        rows = []
        for li, ln in enumerate(self.layer_names):
            rows.append([self.action(0, 'layer') for _ in self.src])
        # every chord key of every group must be bound somewhere: force bindings
        free = [(li, ps) for li in range(len(rows)) for ps in range(len(self.src))]
        rng.shuffle(free)
        for g, names in self.chord_groups:
            for nm in names:
                if not free:
                    break
                li, ps = free.pop()
                rows[li][ps] = '(chord %s %s)' % (g, nm)
        layers = ['(deflayer %s %s)' % (ln, ' '.join(row)) for ln, row in zip(self.layer_names, rows)]
        lines += layers
        if self.vkeys:
            body = []
            for v in self.vkeys:
                saved = self.kinds
                self.kinds = [k for k in saved if k not in ('trans', 'chord1', 'vkeyact', 'src')]
                body.append('%s %s' % (v, self.action(1, 'nested')))
                self.kinds = saved
            lines.append('(defvirtualkeys %s)' % ' '.join(body))
        for g, names in self.chord_groups:
            items = []
            # singles and some combinations
            # most names have a single-key chord, some do not (such a key alone does nothing); every name is used somewhere
            combos = [[n] for n in names if rng.random() < 0.75]
            for _ in range(rng.randint(1, 3)):
                c = sorted(rng.sample(names, rng.randint(2, len(names))))
                if c not in combos:
                    combos.append(c)
            for n in names:
                if not any(n in c for c in combos):
                    c = sorted([n, rng.choice([m for m in names if m != n])])
                    if c not in combos:
                        combos.append(c)
            for c in combos:
                saved = self.kinds
                self.kinds = [k for k in saved if k not in ('trans', 'chord1')]
                items.append('(%s) %s' % (' '.join(c), self.action(1, 'nested')))
                self.kinds = saved
            lines.append('(defchords %s %d %s)' % (g, self.timeout(), ' '.join(items)))
        if (self.p.get('overrides') and rng.random() < 0.3) or ('all' in self.p.get('tag', '') and rng.random() < 0.3):
            n = rng.randint(1, 4)
            items = []
            for _ in range(n):
                inm = rng.sample(MODS, rng.randint(0, 2))
                ik = rng.choice(['x', 'y', 'z', '1', '2'])
                om = rng.sample(MODS, rng.randint(0, 2))
                ok = rng.choice(['b', 'n', 'm', '3', '4', 'x'])
                items.append('(%s) (%s)' % (' '.join(inm + [ik]), ' '.join(om + [ok])))
            lines.append('(defoverrides %s)' % ' '.join(items))
        if self.vkeys and (self.p.get('seqs') or ('all' in self.p.get('tag', '') and rng.random() < 0.4)):
            items = []
            used = []
            pool = ['x', 'y', 'z', 'b', 'n']
            for v in self.vkeys:
                for _ in range(10):
                    ks = [rng.choice(pool) for _ in range(rng.randint(1, 3))]
                    if not any(ks[:len(u)] == u or u[:len(ks)] == ks for u in used):
                        used.append(ks)
                        r = rng.random()
                        if r < 0.15 and len(ks) >= 2 and len(set(ks)) == len(ks):
                            items.append('%s (O-(%s))' % (v, ' '.join(ks)))
                        elif r < 0.3:
                            items.append('%s (S-(%s))' % (v, ' '.join(ks)))
                        else:
                            items.append('%s (%s)' % (v, ' '.join(ks)))
                        break
            if items:
                lines.append('(defseq %s)' % ' '.join(items))
        return '\n'.join(lines)


def codes_of(src):
    return [KEYCODES[k] for k in src]


class HistGen:
    """Histories at the layout level: tokens p<x>,<y> r<x>,<y> t<n>."""

    def __init__(self, rng, keys, gaps, extra_keys=()):
        self.rng = rng
        self.keys = list(keys)
        self.gaps = list(gaps)
        self.extra = list(extra_keys)

    def consistent(self, nev):
        rng = self.rng
        down = []
        toks = []
        for _ in range(nev):
            ks = self.keys + (self.extra if rng.random() < 0.1 else [])
            if down and (rng.random() < 0.45 or len(down) >= len(ks)):
                k = rng.choice(down)
                down.remove(k)
                toks.append('r0,%d' % k)
            else:
                k = rng.choice([k for k in ks if k not in down])
                down.append(k)
                toks.append('p0,%d' % k)
            g = rng.choice(self.gaps)
            if g:
                toks.append('t%d' % g)
        rng.shuffle(down)
        for k in down:
            toks.append('r0,%d' % k)
            g = rng.choice(self.gaps)
            if g:
                toks.append('t%d' % g)
        return toks

    def hostile(self, nev):
        rng = self.rng
        toks = []
        for _ in range(nev):
            k = rng.choice(self.keys + self.extra)
            toks.append(('p0,%d' if rng.random() < 0.55 else 'r0,%d') % k)
            if rng.random() < 0.6:
                toks.append('t%d' % rng.choice(self.gaps + [1]))
        return toks


def gaps_for(timeouts):
    g = {0, 1, 2, 7}
    for t in timeouts:
        for d in (-1, 0, 1):
            if t + d >= 0:
                g.add(t + d)
    return sorted(g)
