#!/usr/bin/env python3
"""Translator: reads tables and constants out of /repo's Rust sources and regenerates
coq/theories/Gen/*.v.  Run before every `make`.  Fails loudly (exit 3, message naming the extractor)
when an expected source shape is absent.  Files are only rewritten when their content changes.

Resolution of cfg-gated alternatives: target_os = "linux".
"""
import os, re, sys, json

REPO = os.environ.get("KV_REPO", "/repo")
OUT = os.environ.get("KV_GEN_OUT") or os.path.join(os.path.dirname(os.path.abspath(__file__)), "..", "coq", "theories", "Gen")


class TranslatorError(Exception):
    pass


def rd(rel):
    p = os.path.join(REPO, rel)
    try:
        return open(p, encoding="utf-8").read()
    except OSError as e:
        raise TranslatorError(f"{rel}: cannot read ({e})")


def need(m, what):
    if not m:
        raise TranslatorError(f"expected source shape absent: {what}")
    return m


def coq_str(s):
    # Coq string literal: double the quote character; bytes pass through (UTF-8).
    return '"' + s.replace('"', '""') + '"'


def write_if_changed(name, content):
    os.makedirs(OUT, exist_ok=True)
    p = os.path.join(OUT, name)
    old = None
    if os.path.exists(p):
        old = open(p, encoding="utf-8").read()
    if old != content:
        with open(p, "w", encoding="utf-8") as f:
            f.write(content)
        return True
    return False


def strip_comments(src):
    # remove // comments (not inside strings: good enough for the enum/match bodies we read,
    # where string literals never contain "//"), and /* */ blocks.
    src = re.sub(r"/\*.*?\*/", "", src, flags=re.S)
    out = []
    for line in src.split("\n"):
        # keep '//' inside string literals
        i = 0
        instr = False
        res = line
        while i < len(line):
            c = line[i]
            if c == '"' and (i == 0 or line[i - 1] != "\\" or (i >= 2 and line[i - 2] == "\\")):
                instr = not instr
            elif not instr and line.startswith("//", i):
                res = line[:i]
                break
            i += 1
        out.append(res)
    return "\n".join(out)


def enum_body(src, name, what):
    m = need(re.search(r"pub enum " + name + r"\s*\{", src), what)
    i = m.end()
    depth = 1
    j = i
    while depth > 0:
        c = src[j]
        if c == "{":
            depth += 1
        elif c == "}":
            depth -= 1
        j += 1
    return src[:m.start()], src[i:j - 1]


def parse_discr_enum(rel, name):
    src = rd(rel)
    pre, body = enum_body(src, name, f"{rel}: pub enum {name}")
    # repr: look at attributes directly above
    attrs = pre[-400:]
    repr_u16 = bool(re.search(r"#\[repr\(u16\)\]", attrs))
    body = strip_comments(body)
    items = []
    nxt = 0
    for part in body.split(","):
        part = part.strip()
        if not part:
            continue
        part = re.sub(r"#\[[^\]]*\]", "", part).strip()
        m = re.fullmatch(r"([A-Za-z_][A-Za-z0-9_]*)\s*(?:=\s*(0x[0-9a-fA-F]+|[0-9]+))?", part)
        need(m, f"{rel}: enum {name} variant `{part[:40]}`")
        v = int(m.group(2), 0) if m.group(2) else nxt
        items.append((m.group(1), v))
        nxt = v + 1
    if len(items) < 100:
        raise TranslatorError(f"{rel}: enum {name} has only {len(items)} variants")
    return items, repr_u16


def cfg_active(attr):
    """Evaluate a #[cfg(...)] attribute for target_os=linux, default features."""
    m = re.fullmatch(r"#\[cfg\((.*)\)\]", attr.strip(), flags=re.S)
    if not m:
        return True
    e = m.group(1)

    def ev(s):
        s = s.strip()
        if s.startswith("any("):
            return any(ev(x) for x in split_args(s[4:-1]))
        if s.startswith("all("):
            return all(ev(x) for x in split_args(s[4:-1]))
        if s.startswith("not("):
            return not ev(s[4:-1])
        mm = re.fullmatch(r'target_os\s*=\s*"(\w+)"', s)
        if mm:
            return mm.group(1) == "linux"
        mm = re.fullmatch(r'feature\s*=\s*"([\w-]+)"', s)
        if mm:
            return mm.group(1) in ("zippychord", "tcp_server", "simulated_output",
                                   "win_sendinput_send_scancodes")
        raise TranslatorError(f"cannot evaluate cfg `{s}`")

    def split_args(s):
        out, d, cur = [], 0, ""
        for c in s:
            if c == "(":
                d += 1
            if c == ")":
                d -= 1
            if c == "," and d == 0:
                out.append(cur)
                cur = ""
            else:
                cur += c
        if cur.strip():
            out.append(cur)
        return out

    return ev(e)


def rust_str_lits(s):
    """All Rust (non-raw) string literals in s, unescaped."""
    res = []
    for m in re.finditer(r'"((?:[^"\\]|\\.)*)"', s):
        raw = m.group(1)
        raw = raw.replace('\\\\', '\x00').replace('\\"', '"').replace('\x00', '\\')
        res.append(raw)
    return res


def gen_keycodes():
    kc, kc_repr = parse_discr_enum("keyberon/src/key_code.rs", "KeyCode")
    oc, oc_repr = parse_discr_enum("parser/src/keys/mod.rs", "OsCode")
    # from_u16_linux
    src = rd("parser/src/keys/linux.rs")
    m = need(re.search(r"fn from_u16_linux\(code: u16\) -> Option<Self> \{\s*match code \{(.*?)\n\s*_ => None,", src, re.S),
             "parser/src/keys/linux.rs: from_u16_linux match")
    from_u16 = []
    for line in strip_comments(m.group(1)).split("\n"):
        line = line.strip()
        if not line:
            continue
        mm = need(re.fullmatch(r"(0x[0-9a-fA-F]+|\d+) => Some\(OsCode::(\w+)\),", line),
                  f"parser/src/keys/linux.rs: from_u16_linux arm `{line[:50]}`")
        from_u16.append((int(mm.group(1), 0), mm.group(2)))
    need(re.search(r"fn as_u16_linux\(self\) -> u16 \{\s*self as u16\s*\}", src),
         "parser/src/keys/linux.rs: as_u16_linux = self as u16")
    # conversions are transmutes
    msrc = rd("parser/src/keys/mappings.rs")
    need(re.search(r"impl From<KeyCode> for OsCode \{\s*fn from\(item: KeyCode\) -> Self \{\s*unsafe \{ std::mem::transmute\(item\) \}", msrc),
         "parser/src/keys/mappings.rs: From<KeyCode> for OsCode is a transmute")
    need(re.search(r"impl From<OsCode> for KeyCode \{\s*fn from\(item: OsCode\) -> KeyCode \{\s*unsafe \{ std::mem::transmute\(item\) \}", msrc),
         "parser/src/keys/mappings.rs: From<OsCode> for KeyCode is a transmute")
    # KEY_MAX in keyberon
    ksrc = rd("keyberon/src/key_code.rs")
    m = need(re.search(r"pub const KEY_MAX: u16 = (\d+);", ksrc), "keyberon/src/key_code.rs: KEY_MAX")
    key_max = int(m.group(1))
    # ignore range
    osrc = rd("src/kanata/output_logic.rs")
    imin = int(need(re.search(r"const KEY_IGNORE_MIN: u16 = (0x[0-9a-fA-F]+|\d+);", osrc), "output_logic.rs: KEY_IGNORE_MIN").group(1), 0)
    imax = int(need(re.search(r"const KEY_IGNORE_MAX: u16 = (0x[0-9a-fA-F]+|\d+);", osrc), "output_logic.rs: KEY_IGNORE_MAX").group(1), 0)
    # each of write_key/press_key/release_key starts with the ignore-range match arm
    for fn in ("write_key", "press_key", "release_key"):
        need(re.search(r"fn " + fn + r"\([^)]*\) -> Result<\(\), std::io::Error> \{\s*(?:use OsCode::\*;\s*)?match u16::from\(osc\) \{\s*KEY_IGNORE_MIN\.\.=KEY_IGNORE_MAX => Ok\(\(\)\),", osrc),
             f"output_logic.rs: {fn} filters KEY_IGNORE_MIN..=KEY_IGNORE_MAX first")

    # key names
    ksrc2 = rd("parser/src/keys/mod.rs")
    m = need(re.search(r"const DEFAULT_MAPPINGS: &\[\(&str, OsCode\)\] = &\[(.*?)\];", ksrc2, re.S), "keys/mod.rs: DEFAULT_MAPPINGS")
    defaults = []
    for line in strip_comments(m.group(1)).split("\n"):
        line = line.strip()
        if not line:
            continue
        mm = need(re.fullmatch(r'\((".*"), OsCode::(\w+)\),', line), f"keys/mod.rs: DEFAULT_MAPPINGS entry `{line[:40]}`")
        defaults.append((rust_str_lits(mm.group(1))[0], mm.group(2)))
    m = need(re.search(r"pub fn str_to_oscode\(s: &str\) -> Option<OsCode> \{(.*?)Some\(match s \{(.*?)\n\s*_ => return None,", ksrc2, re.S),
             "keys/mod.rs: str_to_oscode match")
    need(re.search(r"CUSTOM_STRS_TO_OSCODES\.lock\(\)\.get\(s\)", m.group(1)), "keys/mod.rs: str_to_oscode consults CUSTOM_STRS_TO_OSCODES first")
    names = []
    pending_cfg = None
    for line in m.group(2).split("\n"):
        sline = line.strip()
        if not sline or sline.startswith("//"):
            continue
        if sline.startswith("#[cfg"):
            pending_cfg = sline
            continue
        mm = need(re.fullmatch(r'(".*")\s*=>\s*OsCode::(\w+),(?:\s*//.*)?', sline), f"keys/mod.rs: str_to_oscode arm `{sline[:50]}`")
        active = cfg_active(pending_cfg) if pending_cfg else True
        pending_cfg = None
        if not active:
            continue
        for lit in rust_str_lits(mm.group(1)):
            names.append((lit, mm.group(2)))
    if len(names) < 300:
        raise TranslatorError("keys/mod.rs: fewer than 300 key names read")

    def lst_sn(items):
        return "[\n  " + ";\n  ".join(f"({coq_str(a)}, {b}%N)" for a, b in items) + "\n]"

    def lst_ns(items):
        return "[\n  " + ";\n  ".join(f"({a}%N, {coq_str(b)})" for a, b in items) + "\n]"

    def lst_ss(items):
        return "[\n  " + ";\n  ".join(f"({coq_str(a)}, {coq_str(b)})" for a, b in items) + "\n]"

    v = f"""(* GENERATED by tools/gen_tables.py from /repo sources -- do not edit. *)
From Coq Require Import List NArith String.
Import ListNotations.
Open Scope string_scope.

(* keyberon/src/key_code.rs: enum KeyCode (variant, discriminant) *)
Definition keycode_repr_u16 : bool := {str(kc_repr).lower()}.
Definition keycode_discr : list (string * N) := {lst_sn(kc)}.

(* parser/src/keys/mod.rs: enum OsCode *)
Definition oscode_repr_u16 : bool := {str(oc_repr).lower()}.
Definition oscode_discr : list (string * N) := {lst_sn(oc)}.

(* parser/src/keys/linux.rs: from_u16_linux (code, variant); as_u16_linux = `self as u16` *)
Definition from_u16_linux_tbl : list (N * string) := {lst_ns(from_u16)}.

(* keyberon KEY_MAX; kanata KEY_IGNORE_MIN..=KEY_IGNORE_MAX *)
Definition KEY_MAX : N := {key_max}%N.
Definition KEY_IGNORE_MIN : N := {imin}%N.
Definition KEY_IGNORE_MAX : N := {imax}%N.

(* parser/src/keys/mod.rs: DEFAULT_MAPPINGS (consulted first), then the str_to_oscode match arms
   in source order (name, OsCode variant), cfg resolved for target_os = linux *)
Definition default_key_names : list (string * string) := {lst_ss(defaults)}.
Definition match_key_names : list (string * string) := {lst_ss(names)}.
"""
    ch = write_if_changed("KeyTables.v", v)
    return {"KeyTables.v": ch, "n_keycode": len(kc), "n_oscode": len(oc), "n_from_u16": len(from_u16),
            "n_names": len(names) + len(defaults)}


def gen_consts():
    """capacities and thresholds of keyberon / kanata that the hand-written model repeats: regenerated here, compared with the
    model's own definitions by Proofs/ConstsAgree.v (a proof obligation of every run)"""
    lay = strip_comments(rd("keyberon/src/layout.rs"))
    act = strip_comments(rd("keyberon/src/action.rs"))
    mkb = strip_comments(rd("keyberon/src/multikey_buffer.rs"))
    chd = strip_comments(rd("keyberon/src/chord.rs"))
    kcd = strip_comments(rd("keyberon/src/key_code.rs"))
    kan = strip_comments(rd("src/kanata/mod.rs"))
    dyn = strip_comments(rd("src/kanata/dynamic_macro.rs"))

    def num(src, pat, what):
        return int(need(re.search(pat, src), what).group(1))
    c = {}
    c["QUEUE_SIZE"] = num(lay, r"const QUEUE_SIZE: usize = (\d+);", "layout.rs: QUEUE_SIZE")
    need(re.search(r"type Queue = ArrayDeque<Queued, QUEUE_SIZE, arraydeque::behavior::Wrapping>;", lay), "layout.rs: Queue is a wrapping deque of QUEUE_SIZE")
    need(re.search(r"pub type QueueLen = u8;", lay), "layout.rs: QueueLen = u8")
    c["QUEUE_LEN_MAX"] = 255
    c["ACTION_QUEUE_LEN"] = num(lay, r"pub const ACTION_QUEUE_LEN: usize = (\d+);", "layout.rs: ACTION_QUEUE_LEN")
    c["HISTORICAL_EVENT_LEN"] = num(lay, r"const HISTORICAL_EVENT_LEN: usize = (\d+);", "layout.rs: HISTORICAL_EVENT_LEN")
    c["EXTRA_WAITING_LEN"] = num(lay, r"const EXTRA_WAITING_LEN: usize = (\d+);", "layout.rs: EXTRA_WAITING_LEN")
    c["STATES_CAP"] = num(lay, r"pub states: Vec<State<'a, T>, (\d+)>,", "layout.rs: capacity of Layout.states")
    c["ACTIVE_SEQ_CAP"] = num(lay, r"pub active_sequences: ArrayDeque<SequenceState<'a, T>, (\d+), arraydeque::behavior::Wrapping>,",
                              "layout.rs: capacity of Layout.active_sequences")
    c["MAX_ACTIVE_LAYERS"] = num(lay, r"pub const MAX_ACTIVE_LAYERS: usize = (\d+);", "layout.rs: MAX_ACTIVE_LAYERS")
    c["ONE_SHOT_MAX_ACTIVE"] = num(act, r"pub const ONE_SHOT_MAX_ACTIVE: usize = (\d+);", "action.rs: ONE_SHOT_MAX_ACTIVE")
    c["RPT_BUFCAP"] = c["ONE_SHOT_MAX_ACTIVE"] + num(mkb, r"const BUFCAP: usize = ONE_SHOT_MAX_ACTIVE \+ (\d+);", "multikey_buffer.rs: BUFCAP")
    c["SMOL_Q_LEN"] = num(chd, r"const SMOL_Q_LEN: usize = (\d+);", "chord.rs: SMOL_Q_LEN")
    c["ACTIVE_CHORDS_CAP"] = num(chd, r"active_chords: HVec<ActiveChord<'a, T>, (\d+)>,", "chord.rs: capacity of active_chords")
    c["CHORDS_V2_MIN_IGNORE"] = num(chd, r"assert!\(ticks_ignore_chord >= (\d+)\);", "chord.rs: minimum of ticks_ignore_chord")
    c["KEY_MAX"] = num(kcd, r"pub const KEY_MAX: u16 = (\d+);", "key_code.rs: KEY_MAX")
    c["RELOAD_IDLE_TICKS"] = num(kan, r"\|\| self\.ticks_since_idle > (\d+)\)", "kanata/mod.rs: live reload idle fallback")
    c["REPLAY_PACING"] = num(dyn, r"state\.delay_remaining = (\d+);", "dynamic_macro.rs: replay pacing")
    # the two mouse-button tables: codes kanata reads as buttons (output_logic.rs, osc_to_btn) and the code each button is
    # written with on Linux (keys/linux.rs, From<Btn> for OsCode); buttons numbered Left 0, Right 1, Mid 2, Forward 3, Backward 4
    oc, _ = parse_discr_enum("parser/src/keys/mod.rs", "OsCode")
    ocmap = dict(oc)
    BTN = {"Left": 0, "Right": 1, "Mid": 2, "Forward": 3, "Backward": 4}
    outl = strip_comments(rd("src/kanata/output_logic.rs"))
    m = need(re.search(r"fn osc_to_btn\(osc: OsCode\) -> Btn \{(.*?)\n\}", outl, re.S), "output_logic.rs: osc_to_btn")
    in_tab = [(ocmap[a], BTN[b]) for a, b in re.findall(r"(BTN_\w+)\s*=>\s*(\w+),", m.group(1))]
    need(len(in_tab) == 5, "output_logic.rs: osc_to_btn has five button arms")
    lin = strip_comments(rd("parser/src/keys/linux.rs"))
    m = need(re.search(r"impl From<Btn> for OsCode \{(.*?)\n\}", lin, re.S), "keys/linux.rs: From<Btn> for OsCode")
    out_tab = [(BTN[b], ocmap[a]) for b, a in re.findall(r"Btn::(\w+)\s*=>\s*OsCode::(\w+),", m.group(1))]
    need(len(out_tab) == 5, "keys/linux.rs: From<Btn> for OsCode has five arms")
    body = "\n".join("Definition src_%s : N := %d." % (k, v) for k, v in sorted(c.items()))
    body += "\nDefinition src_osc_to_btn : list (N * N) := [%s]." % "; ".join("(%d, %d)" % t for t in in_tab)
    body += "\nDefinition src_btn_to_osc : list (N * N) := [%s]." % "; ".join("(%d, %d)" % t for t in out_tab)
    v = ("(* GENERATED by tools/gen_tables.py from keyberon/src/{layout,action,multikey_buffer,chord,key_code}.rs and\n"
         "   src/kanata/{mod,dynamic_macro}.rs - do not edit.  Capacities and thresholds as the source states them now. *)\n"
         "From Coq Require Import NArith List.\nImport ListNotations.\nOpen Scope N_scope.\n" + body + "\n")
    ch = write_if_changed("Consts.v", v)
    return {"Consts.v": ch, "n_consts": len(c)}


GENERATORS = [gen_keycodes, gen_consts]


def main():
    info = {}
    try:
        for g in GENERATORS:
            info.update(g())
    except TranslatorError as e:
        print(f"TRANSLATOR-ERROR: {e}")
        sys.exit(3)
    print(json.dumps(info))


if __name__ == "__main__":
    main()
