"""Shared machinery for the checks: builds (translator, Coq, harness, extracted driver), sharded
execution of case files on implementation and model, diffing, evidence and violation reporting."""
import fcntl, hashlib, json, os, re, subprocess, sys, time, contextlib

VERIF = os.path.dirname(os.path.dirname(os.path.abspath(__file__)))
REPO = os.environ.get('KV_REPO', '/repo')
BUILD = os.path.join(VERIF, 'build')
COQ = os.path.join(VERIF, 'coq')
HARNESS_BIN = os.path.join(BUILD, 'target', 'debug', 'kvharness')
DRIVER_BIN = os.path.join(BUILD, 'ocaml', 'driver')
NPROC = 16
ENV = dict(os.environ, CARGO_NET_OFFLINE='true', RUSTFLAGS='--cfg kanata_verif')


class BuildBroken(Exception):
    def __init__(self, what, detail=''):
        super().__init__(what)
        self.what = what
        self.detail = detail


@contextlib.contextmanager
def build_lock():
    os.makedirs(BUILD, exist_ok=True)
    f = open(os.path.join(BUILD, '.lock'), 'w')
    fcntl.flock(f, fcntl.LOCK_EX)
    try:
        yield
    finally:
        fcntl.flock(f, fcntl.LOCK_UN)
        f.close()


def sh(cmd, timeout=1200, cwd=None, env=None, inp=None):
    p = subprocess.run(cmd, shell=isinstance(cmd, str), cwd=cwd, env=env or ENV, input=inp,
                       stdout=subprocess.PIPE, stderr=subprocess.STDOUT, timeout=timeout, text=True)
    return p.returncode, p.stdout


def translator():
    rc, out = sh([sys.executable, os.path.join(VERIF, 'tools', 'gen_tables.py')], timeout=120)
    if rc != 0:
        raise BuildBroken('translator', out.strip()[-2000:])
    return json.loads(out.strip().splitlines()[-1])


FORBIDDEN = re.compile(r'\b(Admitted|admit|Axiom|Parameter|Conjecture|Hypothesis|Variable)\b|Unset Guard|bypass_check|type-in-type|Admit Obligations|impredicative-set')


def scan_forbidden():
    """Admitted/Axiom/... anywhere in the development (Variable/Hypothesis are allowed inside sections only)."""
    bad = []
    for root, _, files in os.walk(os.path.join(COQ, 'theories')):
        for fn in files:
            if not fn.endswith('.v'):
                continue
            p = os.path.join(root, fn)
            depth = 0
            in_comment = 0
            for i, line in enumerate(open(p, encoding='utf-8'), 1):
                # strip comments (nesting-aware, line-based approximation)
                txt = ''
                j = 0
                while j < len(line):
                    if line.startswith('(*', j):
                        in_comment += 1
                        j += 2
                    elif line.startswith('*)', j) and in_comment:
                        in_comment -= 1
                        j += 2
                    else:
                        if not in_comment:
                            txt += line[j]
                        j += 1
                if re.match(r'\s*Section\b', txt):
                    depth += 1
                if re.match(r'\s*End\b', txt) and depth:
                    depth -= 1
                m = FORBIDDEN.search(txt)
                if m:
                    w = m.group(0)
                    if w in ('Variable', 'Hypothesis') and depth > 0:
                        continue
                    if re.search(r'"[^"]*' + re.escape(w) + r'[^"]*"', txt):
                        continue
                    bad.append('%s:%d: %s' % (os.path.relpath(p, VERIF), i, txt.strip()[:120]))
    return bad


def coq_make(jobs=NPROC, timeout=3000):
    with build_lock():
        if not os.path.exists(os.path.join(COQ, 'Makefile')) or \
                os.path.getmtime(os.path.join(COQ, '_CoqProject')) > os.path.getmtime(os.path.join(COQ, 'Makefile')):
            rc, out = sh('coq_makefile -f _CoqProject -o Makefile', cwd=COQ, timeout=120)
            if rc != 0:
                raise BuildBroken('coq_makefile', out[-2000:])
        rc, out = sh('make -j%d' % jobs, cwd=COQ, timeout=timeout)
        if rc != 0:
            m = re.search(r'File "\./([^"]+)", line (\d+)', out)
            where = '%s:%s' % (m.group(1), m.group(2)) if m else '?'
            raise BuildBroken('theorem:' + where, out[-3000:])
    return out


ALLOWED_AXIOMS = set()   # names of std-lib axioms a Props file may depend on (none so far)


def coq_props(pid):
    """Compile Props/<pid>.v on its own, capturing `Print Assumptions` output.
    Returns (n_theorems, assumptions: list of (theorem, text))."""
    src = os.path.join(COQ, 'theories', 'Props', pid + '.v')
    with build_lock():
        rc, out = sh(['coqc', '-Q', 'theories', 'KV', '-w', '-notation-overridden', src], cwd=COQ, timeout=1800)
    if rc != 0:
        raise BuildBroken('theorem:Props/%s.v' % pid, out[-3000:])
    text = open(src, encoding='utf-8').read()
    thms = re.findall(r'^\s*Theorem\s+(\w+)', text, re.M)
    prints = re.findall(r'^\s*Print Assumptions\s+(\w+)\.', text, re.M)
    missing = [t for t in thms if t not in prints]
    if missing:
        raise BuildBroken('theorem:Props/%s.v' % pid, 'no Print Assumptions for ' + ', '.join(missing))
    # every Theorem proof must be `exact <lemma>.`
    for m in re.finditer(r'Theorem\s+(\w+)\s*:(.*?)Proof\.(.*?)Qed\.', text, re.S):
        body = m.group(3).strip()
        if not re.fullmatch(r'exact\s+[^.]+(\.[A-Za-z_][\w.]*)*\.', body, re.S):
            raise BuildBroken('theorem:' + m.group(1), 'Props proof is not a single `exact`: ' + body[:80])
    blocks = re.split(r'(?m)^(?=Closed under the global context|Axioms:)', out)
    results = []
    bi = 0
    for b in blocks:
        if b.startswith('Closed under the global context'):
            results.append('closed')
        elif b.startswith('Axioms:'):
            names = re.findall(r'^(\S+)\s*:', b.split('\n', 1)[1] if '\n' in b else '', re.M)
            results.append('axioms:' + ','.join(names))
    if len(results) != len(prints):
        raise BuildBroken('theorem:Props/%s.v' % pid, 'Print Assumptions count mismatch: %d vs %d' % (len(results), len(prints)))
    ass = list(zip(prints, results))
    for t, r in ass:
        if r != 'closed':
            names = set(r.split(':', 1)[1].split(','))
            if not names <= ALLOWED_AXIOMS:
                raise BuildBroken('theorem:' + t, 'depends on axioms not on the allow-list: ' + r)
    return len(thms), ass


def build_harness(timeout=2400):
    with build_lock():
        lock = os.path.join(VERIF, 'harness', 'Cargo.lock')
        if not os.path.exists(lock):
            import shutil
            shutil.copy(os.path.join(REPO, 'Cargo.lock'), lock)
        rc, out = sh('cargo build --offline 2>&1', cwd=os.path.join(VERIF, 'harness'), timeout=timeout)
        if rc != 0:
            raise BuildBroken('harness-build', out[-3000:])


def build_driver(timeout=900):
    with build_lock():
        d = os.path.join(BUILD, 'ocaml')
        os.makedirs(d, exist_ok=True)
        srcs = [os.path.join(COQ, 'extraction', 'Extract.v'), os.path.join(COQ, 'extraction', 'driver.ml')]
        stamp = os.path.join(d, 'driver')
        newest = max(os.path.getmtime(p) for p in srcs)
        for root, _, files in os.walk(os.path.join(COQ, 'theories')):
            for fn in files:
                if fn.endswith('.vo'):
                    newest = max(newest, os.path.getmtime(os.path.join(root, fn)))
        if os.path.exists(stamp) and os.path.getmtime(stamp) >= newest:
            return
        rc, out = sh(['coqc', '-Q', os.path.join(COQ, 'theories'), 'KV', srcs[0]], cwd=d, timeout=timeout)
        if rc != 0:
            raise BuildBroken('extraction', out[-3000:])
        import shutil
        shutil.copy(srcs[1], os.path.join(d, 'driver.ml'))
        rc, out = sh('ocamlfind ocamlopt -O2 -w -a model.mli model.ml driver.ml -o driver', cwd=d, timeout=timeout)
        if rc != 0:
            raise BuildBroken('driver-build', out[-3000:])


# ---------------------------------------------------------------- case files
def write_cases(path, cases):
    with open(path, 'w', encoding='utf-8') as f:
        for c in cases:
            f.write('CASE %s\n' % c['id'])
            lines = c['cfg'].split('\n')
            f.write('CFG %d\n' % len(lines))
            for l in lines:
                f.write(l + '\n')
            for name, content in (c.get('files') or {}).items():
                ls = content.split('\n')
                f.write('FILE %s %d\n' % (name, len(ls)))
                for l in ls:
                    f.write(l + '\n')
            f.write('H %s\n' % ' '.join(c['hist']))
            f.write('END\n')


def split_blocks(text):
    """CASE-delimited blocks -> dict id -> list of lines (without the CASE line)."""
    out = {}
    cur = None
    for line in text.split('\n'):
        if line.startswith('CASE '):
            cur = line[5:].strip()
            out[cur] = []
        elif cur is not None:
            out[cur].append(line)
    return out


def trace_of(lines):
    """Lines between TRACE-BEGIN/TRACE-END, or the PARSE-* line; None if the block is incomplete."""
    for l in lines:
        if l.startswith('PARSE-'):
            return [l.split(' ', 1)[0]]
    if 'TRACE-BEGIN' in lines and 'TRACE-END' in lines:
        return lines[lines.index('TRACE-BEGIN') + 1:lines.index('TRACE-END')]
    return None


def _limit_mem():
    # a runaway expansion in the code under test must not take the sandbox down: 6 GiB address space per harness process
    import resource
    resource.setrlimit(resource.RLIMIT_AS, (6 << 30, 6 << 30))


def run_impl_shard(sub, casefile, ncases, ids, outpath, timeout):
    """Runs the harness over a case file, restarting after an abort (stack overflow kills the process)."""
    start = 0
    chunks = []
    aborted = []
    hangs = 0
    while start < ncases:
        try:
            p = subprocess.run([HARNESS_BIN, sub, casefile, str(start)], stdout=subprocess.PIPE, stderr=subprocess.DEVNULL,
                               timeout=timeout, env=ENV, preexec_fn=_limit_mem)
            text = p.stdout.decode('utf-8', 'replace')
            rc = p.returncode
        except subprocess.TimeoutExpired as e:
            text = (e.stdout or b'').decode('utf-8', 'replace')
            rc = -999
        blocks = split_blocks(text)
        done = 0
        complete_text = []
        for cid in ids[start:]:
            if cid in blocks and trace_of(blocks[cid]) is not None:
                done += 1
                complete_text.append('CASE %s\n%s' % (cid, '\n'.join(blocks[cid])))
            else:
                break
        chunks.append('\n'.join(complete_text))
        start += done
        if start < ncases and (rc != 0 or done == 0 or True):
            if start < ncases and (ids[start] not in blocks or trace_of(blocks[ids[start]]) is None):
                # the case at `start` killed (or hung) the process
                kind = 'HANG' if rc in (-999, 3) else 'ABORT'
                partial = blocks.get(ids[start], [])
                dump = []
                if 'DUMP-BEGIN' in partial and 'DUMP-END' in partial:
                    dump = partial[partial.index('DUMP-BEGIN'):partial.index('DUMP-END') + 1]
                h = [l for l in partial if l.startswith('H ') or l == 'H']
                tr = []
                if 'TRACE-BEGIN' in partial:
                    tr = [l for l in partial[partial.index('TRACE-BEGIN') + 1:] if l.startswith('@')]
                chunks.append('CASE %s\n%s\nTRACE-BEGIN\n%s\n%s rc=%d\nTRACE-END' % (ids[start], '\n'.join(dump + h), '\n'.join(tr), kind, rc))
                aborted.append(ids[start])
                start += 1
                if kind == 'HANG':
                    hangs += 1
                    if hangs >= 3:
                        # every further hang costs the whole watchdog period; three concrete hanging inputs per shard
                        # are reported, the rest of the shard is not run
                        for cid in ids[start:]:
                            chunks.append('CASE %s\nTRACE-BEGIN\nSKIPPED after repeated hangs in this shard\nTRACE-END' % cid)
                        start = ncases
    with open(outpath, 'w', encoding='utf-8') as f:
        f.write('\n'.join(chunks) + '\n')
    return aborted


def run_both(sub, cases, tag, shards=NPROC, timeout=900):
    """Runs cases on the implementation (harness subcommand `sub`) and on the extracted model.
    Returns dict id -> (impl_trace, model_trace)."""
    from concurrent.futures import ThreadPoolExecutor
    d = os.path.join(BUILD, 'runs', tag)
    os.makedirs(d, exist_ok=True)
    shards = max(1, min(shards, len(cases)))
    parts = [cases[i::shards] for i in range(shards)]

    def work(i):
        part = parts[i]
        cf = os.path.join(d, 'cases_%d.txt' % i)
        write_cases(cf, part)
        ids = [c['id'] for c in part]
        io = os.path.join(d, 'impl_%d.txt' % i)
        run_impl_shard(sub, cf, len(part), ids, io, timeout)
        p = subprocess.run([DRIVER_BIN, sub, io], stdout=subprocess.PIPE, stderr=subprocess.STDOUT, timeout=timeout)
        mo = p.stdout.decode('utf-8', 'replace')
        with open(os.path.join(d, 'model_%d.txt' % i), 'w', encoding='utf-8') as f:
            f.write(mo)
        ib = split_blocks(open(io, encoding='utf-8').read())
        mb = split_blocks(mo)
        res = {}
        for cid in ids:
            res[cid] = (trace_of(ib.get(cid, [])), trace_of(mb.get(cid, [])))
        return res

    out = {}
    with ThreadPoolExecutor(max_workers=shards) as ex:
        for r in ex.map(work, range(shards)):
            out.update(r)
    return out


def canon_trace(tr):
    """Canonical form for diffing: panic messages reduced to a class."""
    if tr is None:
        return ['<no output>']
    out = []
    for l in tr:
        if l.startswith('INFO '):
            continue
        if l.startswith('PANIC') or l.startswith('ABORT') or l.startswith('HANG'):
            m = re.match(r'PANIC tick=(\d+)', l)
            out.append('CRASH' + (' tick=' + m.group(1) if m else ''))
        elif l.startswith('DM@'):
            # a saved dynamic macro: the releases appended for keys still down come out of a hash set in the Rust
            # ("in no particular order"): the trailing run of `R<key>,0` items is compared as a set
            head, _, items = l.rstrip().partition(' : ')
            items = items.split()
            i = len(items)
            while i > 0 and re.fullmatch(r'R\d+,0', items[i - 1]):
                i -= 1
            out.append(head + ' : ' + ' '.join(items[:i] + sorted(items[i:])))
        else:
            out.append(l.rstrip())
    return out


def same_trace(impl, model):
    """Equality of canonical traces; an abort/hang of the implementation process (stack overflow)
    carries no partial trace, so there only crash-ness is compared."""
    a, b = canon_trace(impl), canon_trace(model)
    if impl is not None and any(l.startswith(('ABORT', 'HANG')) for l in impl):
        return is_crash(model)
    if a == b:
        return True
    # a saved dynamic macro whose appended releases (keys still down when recording stopped) come in another order - a hash set
    # in the Rust, first-pressed order in the model: the replay legitimately differs in timing; such runs are not compared
    ra = [l.rstrip() for l in (impl or []) if l.startswith('DM@')]
    rb = [l.rstrip() for l in (model or []) if l.startswith('DM@')]
    if ra != rb and [l for l in a if l.startswith('DM@')] == [l for l in b if l.startswith('DM@')]:
        return True
    return False


def is_crash(tr):
    return tr is not None and any(l.startswith(('PANIC', 'ABORT', 'HANG')) for l in tr)


# ---------------------------------------------------------------- evidence / reporting
def write_evidence(pid, tier, seed, level, coverage, wall_s, violations=0, assumptions=None):
    os.makedirs(os.path.join(VERIF, 'evidence'), exist_ok=True)
    if level == 'proof' and coverage.get('discharged', 0) < max(coverage.get('obligations', 1), 1):
        # the proof obligations did not all check in this run: what the run still did is exploration, not proof
        level = 'exploration'
        coverage = dict(coverage, proof_status='broken: %d of %d obligations discharged' % (coverage.get('discharged', 0), coverage.get('obligations', 0)))
    ev = {'property_id': pid, 'tier': tier, 'seed': seed, 'level': level, 'coverage': coverage,
          'assumptions': assumptions or [], 'wall_s': round(wall_s, 2), 'violations': violations}
    with open(os.path.join(VERIF, 'evidence', pid + '.json'), 'w', encoding='utf-8') as f:
        json.dump(ev, f, indent=1, ensure_ascii=False)


def write_replay(pid, name, content):
    d = os.path.join(VERIF, 'replays', pid)
    os.makedirs(d, exist_ok=True)
    p = os.path.join(d, name)
    with open(p, 'w', encoding='utf-8') as f:
        f.write(content)
    return p


def load_known_findings():
    p = os.path.join(VERIF, 'known_findings.json')
    if not os.path.exists(p):
        return {'open': [], 'fixed': []}
    return json.load(open(p, encoding='utf-8'))


TRUSTED_BASE = [
    'Coq 8.16.1 kernel (coqc; coqchk in the thorough tier); vm_compute used for finite-table lemmas; no native_compute',
    'axioms: none (every Props theorem prints "Closed under the global context"); none declared; no Admitted',
    'translator tools/gen_tables.py (regex reading of Rust tables/constants, cfg resolved for target_os=linux)',
    'extraction with ExtrOcamlBasic directives only (bool, option, list, prod, unit, sumbool); OCaml 4.13 compiler; driver.ml',
    'hand-written Gallina model validated against the implementation only on the cases the correspondence ran',
    'rustc/cargo, harness/ (dump.rs serialiser, case runner), tools/*.py (generators, diff)',
]


# ---------------------------------------------------------------- generic check driver
def shrink_case(sub, case, still_fails, budget=60):
    """Delta-debugging on the history tokens (then nothing else): returns a smaller failing case."""
    hist = list(case['hist'])
    t0 = time.time()
    n = 2
    tries = 0
    while len(hist) >= 2 and time.time() - t0 < budget and tries < 40:
        chunk = max(1, len(hist) // n)
        reduced = False
        cands = []
        for i in range(0, len(hist), chunk):
            h2 = hist[:i] + hist[i + chunk:]
            if h2:
                cands.append(h2)
        if not cands:
            break
        cs = [dict(case, id='shr%d' % k, hist=h2) for k, h2 in enumerate(cands)]
        tries += 1
        res = run_both(sub, cs, 'shrink', shards=min(NPROC, len(cs)), timeout=120)
        for k, h2 in enumerate(cands):
            it, mt = res['shr%d' % k]
            if still_fails(dict(case, hist=h2), it, mt):
                hist = h2
                n = max(n - 1, 2)
                reduced = True
                break
        if not reduced:
            if chunk == 1:
                break
            n = min(n * 2, len(hist))
    return dict(case, hist=hist)


def case_text(case, it=None, mt=None, note=''):
    s = ['# ' + note] if note else []
    s.append('CASE %s' % case['id'])
    lines = case['cfg'].split('\n')
    s.append('CFG %d' % len(lines))
    s += lines
    for name, content in (case.get('files') or {}).items():
        ls = content.split('\n')
        s.append('FILE %s %d' % (name, len(ls)))
        s += ls
    s.append('H ' + ' '.join(case['hist']))
    s.append('END')
    if case.get('text') is not None:
        s.append('# --- configuration text (python repr)')
        s.append('# ' + repr(case['text']))
    if it is not None:
        s.append('# --- implementation trace')
        s += ['# ' + l for l in it]
    if mt is not None:
        s.append('# --- model trace')
        s += ['# ' + l for l in mt]
    return '\n'.join(s) + '\n'


def run_check(spec, tier, seed):
    """Generic flow of a check (DESIGN 2.5).  Returns the process exit code."""
    import random
    pid = spec['id']
    t0 = time.time()
    broken = []          # (what, detail)
    n_thm, ass = 0, []
    tinfo = {}
    try:
        tinfo = translator()
    except BuildBroken as e:
        broken.append(('translator:' + e.what, e.detail))
    coq_ok = False
    if not broken:
        try:
            coq_make()
            bad = scan_forbidden()
            if bad:
                raise BuildBroken('forbidden-construct', '\n'.join(bad))
            n_thm, ass = coq_props(pid)
            coq_ok = True
        except BuildBroken as e:
            broken.append((e.what, e.detail))
        except subprocess.TimeoutExpired:
            broken.append(('theorem:timeout', 'coq build timed out'))
    harness_ok = False
    try:
        build_harness()
        harness_ok = True
    except BuildBroken as e:
        broken.append((e.what, e.detail))
    driver_ok = False
    if coq_ok or os.path.exists(DRIVER_BIN):
        try:
            if coq_ok:
                build_driver()
            driver_ok = os.path.exists(DRIVER_BIN)
        except BuildBroken as e:
            broken.append((e.what, e.detail))
    if tier == 'thorough' and coq_ok:
        try:
            rc, out = sh(['coqchk', '-silent', '-o', '-Q', 'theories', 'KV', 'KV.Props.' + pid], cwd=COQ, timeout=3000)
            if rc != 0:
                broken.append(('theorem:coqchk', out[-2000:]))
            else:
                m = re.search(r'\* Axioms:\s*(.*?)(\n\s*\*|\Z)', out, re.S)
                if m and '<none>' not in m.group(1):
                    broken.append(('theorem:coqchk-axioms', m.group(1)[:1000]))
        except subprocess.TimeoutExpired:
            broken.append(('theorem:coqchk-timeout', ''))

    rng = random.Random(seed * 1000003 + int(hashlib.sha1(pid.encode()).hexdigest()[:6], 16))
    stats = {'evaluations': 0, 'agree': 0, 'mismatch': 0, 'parse_rejected': 0, 'nontrivial': set(), 'oracle_checked': 0,
             'impl_crash': 0, 'unsupported': 0}
    samples = []
    mismatches = []
    oracle_viol = []
    dist = {}
    all_results = []
    if harness_ok:
        cases = list(spec.get('corpus', lambda: [])()) + list(spec['gen_cases'](rng, tier))
        byid = {c['id']: c for c in cases}
        groups = {}
        for c in cases:
            groups.setdefault(c.get('sub', spec.get('sub', 'lsim')), []).append(c)
        for sub, cs in groups.items():
            if driver_ok:
                res = run_both(sub, cs, pid + '-' + sub, timeout=(spec.get('timeouts') or {}).get(sub, 900))
            else:
                res = run_both(sub, cs, pid + '-' + sub)  # model output will be missing; impl traces still usable
            for c in cs:
                it, mt = res[c['id']]
                all_results.append((c, it, mt))
                stats['evaluations'] += 1
                for k, v in (c.get('tags') or {}).items():
                    dist.setdefault(k, {}).setdefault(str(v), 0)
                    dist[k][str(v)] += 1
                if it and it[0].startswith('SKIPPED'):
                    stats['skipped_after_hangs'] = stats.get('skipped_after_hangs', 0) + 1
                    continue
                if it and it[0].startswith('PARSE-'):
                    stats['parse_rejected'] += 1
                    if spec.get('parse_oracle'):
                        r = spec['parse_oracle'](c, it)
                        if r:
                            oracle_viol.append((c, it, mt, r))
                    continue
                if mt and mt[0].startswith('UNSUPPORTED'):
                    stats['unsupported'] += 1
                elif driver_ok and not c.get('no_compare'):
                    if spec.get('compare', same_trace)(it, mt):
                        stats['agree'] += 1
                    else:
                        stats['mismatch'] += 1
                        mismatches.append((c, it, mt))
                if is_crash(it):
                    stats['impl_crash'] += 1
                if spec.get('oracle'):
                    stats['oracle_checked'] += 1
                    r = spec['oracle'](c, it)
                    if r:
                        oracle_viol.append((c, it, mt, r))
                if spec.get('nontrivial', lambda c, it: True)(c, it):
                    stats['nontrivial'].add(hashlib.sha1(('\n'.join(it or []) + c['cfg']).encode()).hexdigest())
                if len(samples) < 3 and it and not it[0].startswith('PARSE-'):
                    samples.append({'cfg': c['cfg'], 'history': ' '.join(c['hist'])[:400], 'impl_trace': it[:8]})

    # second-phase oracles that need to run more cases on the implementation (e.g. paired runs)
    if harness_ok and spec.get('post'):
        def run_impl(sub, cs, tag):
            r = run_both(sub, cs, pid + '-' + tag)
            return {cid: v[0] for cid, v in r.items()}
        try:
            extra = spec['post'](all_results, run_impl, rng, tier, stats)
            oracle_viol += extra
        except Exception as e:       # a crash of the oracle machinery is a broken check, not a pass
            broken.append(('oracle-machinery', repr(e)))
    known = load_known_findings()
    known_open = [k for k in known.get('open', []) if k.get('property') == pid or pid in k.get('correspondence_scope', [])]

    def first_diff_tick(it, mt):
        a, b = canon_trace(it), canon_trace(mt)
        for x, y in zip(a + ['<end>'], b + ['<end>']):
            if x != y:
                ts = [int(m.group(1)) for m in (re.search(r'(?:@|tick=)(\d+)', z) for z in (x, y)) if m]
                return min(ts) if ts else None
        return None

    def is_known(c, it, why, corr=False, mt=None):
        for k in known_open:
            pat = dict(k.get('match', {}))
            if corr:
                # a model/implementation difference inside the regime of a finding that says so
                if not k.get('covers_correspondence'):
                    continue
                pat.pop('why_regex', None)
                if k.get('corr_not_before') and mt is not None:
                    # ... and only from the moment the finding's event happened in this run (tick taken from the trace)
                    t0 = [int(m.group(1)) for m in (re.search(k['corr_not_before'], l) for l in (it or [])) if m]
                    td = first_diff_tick(it, mt)
                    if t0 and td is not None and td < t0[0]:
                        continue
            elif k.get('property') != pid:
                continue
            if 'cfg_regex' in pat and not re.search(pat['cfg_regex'], c['cfg']):
                continue
            if 'cfg_pred' in pat:
                import findings_pred
                if not findings_pred.PREDICATES[pat['cfg_pred']](c['cfg']):
                    continue
            if 'why_regex' in pat and not re.search(pat['why_regex'], why or ''):
                continue
            if 'trace_regex' in pat and not any(re.search(pat['trace_regex'], l) for l in (it or [])):
                continue
            return k
        return None

    wall = time.time() - t0
    violations = 0
    lines = []
    # 1. oracle violations on the implementation: concrete failing inputs
    seen_known = set()
    for (c, it, mt, why) in oracle_viol:
        k = is_known(c, it, why)
        if k:
            seen_known.add(k['class'])
            continue
        violations += 1
        if violations <= 3:
            c2 = c
            if violations == 1 and spec.get('shrink_oracle'):
                try:
                    c2, it = spec['shrink_oracle'](c, it, why)
                except Exception:
                    c2 = c
            p = write_replay(pid, '%s.case' % hashlib.sha1((c['cfg'] + ' '.join(c['hist'])).encode()).hexdigest()[:12],
                             case_text(c2, it, mt, 'property oracle: ' + why))
            lines.append('VIOLATION property=%s replay=%s' % (pid, p))
    # 2. correspondence mismatches
    unknown_mm = []
    for (c, it, mt) in mismatches:
        k = is_known(c, it, None, corr=True, mt=mt)
        if k:
            seen_known.add(k['class'])
        else:
            unknown_mm.append((c, it, mt))
    if not violations and unknown_mm:
        c, it, mt = unknown_mm[0]
        c0, it0, mt0 = c, it, mt
        try:
            sub = c.get('sub', spec.get('sub', 'lsim'))
            # shrinking must stay outside the regime of the recorded findings: a smaller history that differs for a known
            # reason is another failure, not a smaller version of this one
            c = shrink_case(sub, c, lambda cc, i2, m2: i2 is not None and not (i2 and i2[0].startswith('PARSE-'))
                            and not spec.get('compare', same_trace)(i2, m2) and not is_known(cc, i2, None, corr=True, mt=m2))
            r = run_both(sub, [dict(c, id='final')], 'shrink', shards=1, timeout=120)
            it, mt = r['final']
        except Exception:
            pass
        why = None
        if spec.get('oracle'):
            why = spec['oracle'](c, it)
        # a difference between model and implementation is explained by a recorded finding only when the finding says that it
        # covers the correspondence (the model reproduces the recorded findings, so an oracle explanation that happens to
        # match one does not account for the difference)
        k = is_known(c, it, None, corr=True, mt=mt)
        if k:
            # the shrunk case drifted into such a finding: report the original, which is not one
            c, it, mt = c0, it0, mt0
            why = spec['oracle'](c, it) if spec.get('oracle') else None
            k = None
        if k:
            seen_known.add(k['class'])
        else:
            violations += 1
            note = 'correspondence model/implementation differs (%d of %d cases)' % (len(mismatches), stats['evaluations'])
            if why:
                note += '; property oracle: ' + why
            p = write_replay(pid, 'corr-%s.case' % hashlib.sha1((c['cfg'] + ' '.join(c['hist'])).encode()).hexdigest()[:12],
                             case_text(c, it, mt, note))
            lines.append('VIOLATION property=%s replay=%s%s' % (pid, p, '' if (why or is_crash(it)) else ' no-failing-input-found'))
    # 3. broken proof / translator / build with nothing concrete found
    if not violations and broken:
        violations += 1
        txt = 'broken obligations for %s (no failing input found by the search over %d cases):\n' % (pid, stats['evaluations'])
        for what, detail in broken:
            txt += '\n== %s\n%s\n' % (what, detail)
        p = write_replay(pid, 'broken-%s.txt' % re.sub(r'[^A-Za-z0-9_.-]', '_', broken[0][0])[:60], txt)
        lines.append('VIOLATION property=%s replay=%s no-failing-input-found' % (pid, p))
    for k in known_open:
        if k['class'] in seen_known or k.get('always_print'):
            print('KNOWN-FINDING: property=%s %s' % (pid, k['what']))
    coverage = {
        'obligations': max(n_thm, 1) if coq_ok else max(n_thm, 1),
        'discharged': n_thm if coq_ok else 0,
        'checker_cmd': 'tools/gen_tables.py && make -C coq (coqc 8.16.1, full .vo) && coqc Props/%s.v (Print Assumptions parsed)%s'
                       % (pid, ' && coqchk -o' if tier == 'thorough' else ''),
        'trusted_base': TRUSTED_BASE + spec.get('trusted_extra', []),
        'theorems': [{'name': t, 'assumptions': r} for t, r in ass],
        'translator': tinfo,
        'evaluations': stats['evaluations'],
        'distinct_nontrivial': len(stats['nontrivial']),
        'rule': spec.get('rule', ''),
        'samples': samples or [{'note': 'no case ran'}],
        'traces_validated_against_impl': stats['agree'],
        'correspondence': {k: (v if not isinstance(v, set) else len(v)) for k, v in stats.items()},
        'input_distribution': dist,
        'broken': [b[0] for b in broken],
        'explanation': spec.get('explanation', ''),
    }
    write_evidence(pid, tier, seed, 'proof', coverage, wall, violations, spec.get('assumptions', []))
    for l in lines:
        print(l)
    print('%s: tier=%s theorems=%d/%d cases=%d agree=%d mismatch=%d parse_rejected=%d nontrivial=%d wall=%.1fs'
          % (pid, tier, n_thm if coq_ok else 0, n_thm, stats['evaluations'], stats['agree'], stats['mismatch'],
             stats['parse_rejected'], len(stats['nontrivial']), wall))
    return 1 if violations else 0
