#!/usr/bin/env python3
"""Regenerates MANIFEST.json from the table below (single source of truth for what is claimed)."""
import json, subprocess, os
VERIF = os.path.dirname(os.path.dirname(os.path.abspath(__file__)))
TB = ("Trusted: Coq 8.16.1 kernel (+coqchk in the thorough tier), no axioms (Print Assumptions parsed on every run), no native_compute; "
      "translator tools/gen_tables.py; extraction (ExtrOcamlBasic directives only) + OCaml driver, used only for the correspondence; "
      "the hand-written Gallina model is validated against the real crates only on the cases a run executes (counts in evidence). "
      "Modelled rather than verified: ")
KAN = "src/kanata/mod.rs (handle_input_event, tick_ms/tick_states, handle_keystate_changes incl. custom actions), key_repeat.rs, sequences.rs, dynamic_macro.rs, caps_word.rs, parser key_override.rs and keyberon Layout as Gallina functions; not modelled: mouse-move distances, cmd/clipboard/push-msg, zippychord (pass-through), chords v2."
LAYOUT = "keyberon Layout (layout.rs, action.rs, action/switch.rs) without chords v2; the parser is outside the model (the model consumes the parsed configuration dumped by the real parser)."
CHECKS = {
 'C04': ("Coq theorems on the executable layout model: an event below 32 pending is appended FIFO with no other effect; a release removes exactly the states created at its coordinate whatever the layers are now; a press resolves to the first non-transparent cell in the search order; the search order is held layers newest-first, base, optional first layer. Tied to keyberon::Layout by differential execution of the extracted model against the real crate. Partial: the end-to-end refinement to the layered-keymap spec and the parser's table fill are not yet theorems.",
         "Coq lemmas on a hand-written Gallina model of keyberon Layout + differential correspondence", LAYOUT),
 'C05': ("Coq theorems on the model's tap-hold decision function: for EVERY hold timeout H the timeout/hold action is chosen exactly at tick H with no other input (induction on H); the complete decision function (tap iff own release arrives before the timeout elapsed); the early triggers of the press / release / release-keys variants; a decision removes the pending state before its single action; events arriving while pending are only queued in order. Tied to the implementation by differential execution over a grid of variants x H x schedules. Partial: the composition with the whole tick (replay order after the decision) is covered by correspondence only.",
         "Coq induction/decision lemmas on the Gallina Layout model + differential correspondence", LAYOUT),
 'C06': ("Coq theorems on the model's one-shot state machine: expiry exactly at the timeout for EVERY T (induction), ending clears all one-shot state (never lingers), end conditions of press / release / pcancel variants, deferred release of the one-shot key, inertness when inactive. Tied by differential execution incl. structured multi-session histories and >16 stacked one-shots. Partial: the interplay with the rest of the tick is covered by correspondence only.",
         "Coq induction/decision lemmas on the Gallina Layout model + differential correspondence", LAYOUT),
 'C08': ("Coq theorems on the model's sequence player: a delay of d consumes d ticks, a press step holds exactly its key and a release step releases it, one step per macro per tick, every cancel path clears all macro-held keys, a repeating macro restarts only while its state exists. Tied by differential execution (all macro variants, custom items, >4 concurrent). Partial: fidelity of a whole macro as one theorem, and kanata's own cancel paths, are covered by correspondence.",
         "Coq lemmas on the Gallina Layout model + differential correspondence", LAYOUT),
 'C09': ("Coq theorems on the model of defchords: the pressed set is order independent (permutation lemma), the exact chord fires iff no defined strict superset remains possible, participants' presses are consumed. Tied by differential execution. Partial: defchordsv2 is not modelled (such cases are counted as unsupported and only checked by the implementation-side run).",
         "Coq lemmas on the Gallina Layout model + differential correspondence", LAYOUT),
 'C10': ("The property is a Coq theorem: for every list of well-formed condition items (every operator >= 1 operand, any size up to the opcode limit, any nesting the parser accepts) and every environment, the stack-machine evaluator run on the compiled opcodes returns the denotation of the written condition (C10_eval_correct, induction over forests with an explicit machine invariant); cases/break/fallthrough (C10_cases); decode(encode) for every opcode constructor (exhaustive computation lifted to forall); compression bounds of key-timing thresholds. Compile (parser) and evaluate (keyberon) are tied to the model on raw opcodes and fired cases, exhaustively for all shapes up to a node bound over 3 leaves and randomly to depth 8; an independent python oracle evaluates the written condition.",
         "Coq proof (evaluator vs denotation, all depths) + opcode/fired-case correspondence + exhaustive small-scope oracle", "keyberon action/switch.rs (evaluator, opcodes) and parser cfg/switch.rs (compiler) as Gallina functions."),
 'C11': ("Every statement of the property about the code tables (discriminant sets coincide, both transmutes preserve the numeric code, from_u16/as_u16 round trip, a listed key name resolves to its listed code, ignore range never output) is a Coq theorem proved by computation over tables REGENERATED from the Rust source on every run; the compiled crates are compared with those tables exhaustively (all u16 < 1024, all names) and every known code is sent through self-mapped / transparent / unmapped configurations of the real Kanata; the intercepted-key set is checked against defsrc + deflayermap inputs + (all known - exceptions) on random configurations.",
         "Coq proof by vm_compute over translator-regenerated tables + exhaustive table/pipeline correspondence", "the key tables (translated, not hand-modelled); write_key/press_key/release_key's ignore-range filter (pattern-checked by the translator)."),
 'C13': ("Coq theorems on the model of Overrides::override_keys for arbitrary tables and key lists: the chosen override matches and no matching override of the same key has more modifiers, substitution removes the combination and adds the outputs, keys outside keep their relative order, no combination present => the list is unchanged (restore). The real override_keys (public) is compared with the model on every ordered key list up to length 4 over each random table, plus pipeline histories; an independent python reading of the property is the failing-input oracle.",
         "Coq lemmas on a Gallina model of key_override.rs + exhaustive key-list correspondence + oracle", "parser cfg/key_override.rs and the override part of handle_keystate_changes."),
 'C14': ("Coq theorems on the model of key_repeat.rs: a repeat event yields at most one output event and only for a key in the key list kanata computes for the OS (after unmod/unshift filtering and overrides); an unmod-released modifier is never repeated; the last-listed chord key is preferred. Tied by kanata-level differential execution with repeats injected everywhere; a python oracle reconstructs the OS-down set from the real output and checks every forwarded repeat, and completeness for every key-producing action form held alone. Partial: completeness of the parser's key-outputs table is tested (oracle), not proved.",
         "Coq lemmas on a Gallina model of key_repeat.rs + kanata-level differential correspondence + OS-down-set oracle", KAN),
 'C18': ("Coq theorems on the model: press/release/tap of a virtual key are the layout's own events whoever triggers them, toggle releases iff something is held at the coordinate, hold-for-duration releases exactly at D for EVERY D and is re-armed (no second press) on re-activation, on-idle fires once the idle time is reached and not before. Tied by kanata-level differential execution incl. direct fake-key calls (the TCP handler's entry point). Partial: the TCP server thread itself is not run.",
         "Coq lemmas on the Gallina kanata model + kanata-level differential correspondence", KAN),
 'C19': ("Coq theorems on the model of dynamic_macro.rs: the saved macro is the typed events in order minus the stop key and the truncated tail (for every typing history), releases are appended so that nothing stays down, a macro never replays itself, recording stops at the size limit, replay pops items in order with the pacing. Tied by kanata-level differential execution over recording scenarios; the oracle checks that nothing is left down and that a replay reproduces the typing on time-insensitive configs. The order of the final releases comes from a hash set: compared event-by-event only when at most one key can be down.",
         "Coq lemmas on a Gallina model of dynamic_macro.rs + kanata-level differential correspondence + oracle", KAN),
 'C17': ("Coq theorems on the model's tap-dance: the count is 1 + own presses before the first other press, the three end conditions (timeout, other key, list exhausted), the chosen action is min(count,len)-1, eviction removes every own press and keeps the other keys' events in order. Tied by differential execution over a grid (lazy/eager, list length 1-4, T) and random configs.",
         "Coq lemmas on the Gallina Layout model + differential correspondence", LAYOUT),
}
NA_REASON = "check under construction in this round (the technique applies; model/theorems for it are not yet registered) — see DESIGN.md section 4"


def main():
    checks = []
    for pid in sorted(CHECKS):
        text, tech, modelled = CHECKS[pid]
        checks.append({"property_id": pid, "quick_cmd": "./kv check %s --tier quick" % pid, "thorough_cmd": "./kv check %s --tier thorough" % pid,
                       "evidence_file": "/verif/evidence/%s.json" % pid, "replay_cmd_template": "./kv replay %s {path}" % pid, "engine": "coq-model",
                       "level_claimed": {"category": "proof", "text": text, "design_ref": "DESIGN.md section 4, %s" % pid},
                       "level_note": TB + modelled, "technique": tech})
    hooks = subprocess.run("git -C /repo log --format=%h --grep='verif hook'", shell=True, capture_output=True, text=True).stdout.split()
    m = {"version": 1, "setup_cmd": "./kv setup",
         "hooks": {"guard": "--cfg kanata_verif", "enable": "RUSTFLAGS=\"--cfg kanata_verif\" (set by tools/kvlib.py when building /verif/harness against /repo)",
                   "baseline_off_cmd": "cd /repo && (cargo nextest run --workspace --no-fail-fast --tool-config-file pb:/w/lib/nextest.toml --profile pb --test-threads 8 --offline || cargo test --workspace --no-fail-fast --offline)",
                   "source_commits": hooks, "add_only": True},
         "engines": [{"name": "coq-model", "path": "/verif/coq", "serves_properties": sorted(CHECKS),
                      "kind_free_text": "Coq 8.16 development (model, specs, theorems) + translator + extracted OCaml driver + Rust harness built against /repo"}],
         "checks": checks,
         "notes": "See DESIGN.md. known_findings.json lists open findings and fixed: entries.",
         "not_applicable": [{"property_id": "C%02d" % i, "reason": NA_REASON} for i in range(1, 21) if "C%02d" % i not in CHECKS]}
    json.dump(m, open(os.path.join(VERIF, 'MANIFEST.json'), 'w'), indent=1)
    print('MANIFEST: %d checks, %d not yet claimed' % (len(checks), len(m['not_applicable'])))


main()
