#!/bin/bash
# usage: tools/mutant.sh <seeded-dir-name> [property-id ...]   apply the seeded patch to /repo, run the quick checks, revert
set -u
name=$1; shift
pids="$@"
# the property whose check decides the change: the one it was written against, unless meta.json names others ("checked_by":
# the statement broken is that of another property, e.g. a key-repeat table change filed under overrides)
if [ -z "$pids" ]; then pids=$(python3 -c "import json,sys;m=json.load(open('/verif/seeded/$name/meta.json'));print(' '.join(m.get('checked_by') or ['$name'.split('-')[0]]))" 2>/dev/null || echo $name | cut -d- -f1); fi
cd /repo
if ! git diff --quiet; then echo "REPO DIRTY"; exit 2; fi
P=/verif/seeded/$name/patch.diff
if [ -f /verif/seeded/$name/patch.rebased.diff ]; then P=/verif/seeded/$name/patch.rebased.diff; fi
if ! git apply $P 2>/tmp/apply.err; then
  echo "PATCH-DOES-NOT-APPLY ($P)"; head -5 /tmp/apply.err; git reset -q --hard HEAD; exit 3
fi
cd /verif
for p in $pids; do
  timeout 1500 ./kv check $p --tier quick 2>&1 | tail -4
  echo "exit=$? ($name vs $p)"
done
cd /repo; git reset -q --hard HEAD; git status --short | head -3
