#!/bin/bash
# usage: tools/mutant.sh <seeded-dir-name> [property-id ...]   apply the seeded patch to /repo, run the quick checks, revert
set -u
name=$1; shift
pids="$@"
if [ -z "$pids" ]; then pids=$(echo $name | cut -d- -f1); fi
cd /repo
if ! git diff --quiet; then echo "REPO DIRTY"; exit 2; fi
P=/verif/seeded/$name/patch.diff
if [ -f /verif/seeded/$name/patch.rebased.diff ]; then P=/verif/seeded/$name/patch.rebased.diff; fi
if ! git apply $P 2>/tmp/apply.err; then
  echo "PATCH-DOES-NOT-APPLY ($P)"; head -5 /tmp/apply.err; git reset -q --hard HEAD; exit 3
fi
cd /verif
for p in $pids; do
  timeout 1500 ./kv check $p --tier quick 2>&1 | tail -4
  echo "exit=$? ($name vs $p)"
done
cd /repo; git reset -q --hard HEAD; git status --short | head -3
