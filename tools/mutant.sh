#!/bin/bash
# usage: tools/mutant.sh <seeded-dir-name> [property-id ...]   apply the seeded patch to /repo, run the quick checks, revert
set -u
name=$1; shift
pids="$@"
if [ -z "$pids" ]; then pids=$(echo $name | cut -d- -f1); fi
cd /repo
if ! git diff --quiet; then echo "REPO DIRTY"; exit 2; fi
if ! git apply --3way /verif/seeded/$name/patch.diff 2>/tmp/apply.err; then
  if ! git apply /verif/seeded/$name/patch.diff 2>>/tmp/apply.err; then echo "PATCH-DOES-NOT-APPLY"; cat /tmp/apply.err | head -5; git checkout -- . ; git reset -q; exit 3; fi
fi
git reset -q
cd /verif
for p in $pids; do
  timeout 1500 ./kv check $p --tier quick 2>&1 | tail -4
  echo "exit=$? ($name vs $p)"
done
cd /repo; git checkout -- .; git status --short | head -3
