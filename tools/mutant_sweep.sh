#!/bin/bash
# runs seeded changes through the quick check of their property (all of them, or the names given); one line per change in
# build/mutant_sweep.log (or $KV_SWEEP_LOG)
cd /verif
LOG=${KV_SWEEP_LOG:-build/mutant_sweep.log}
: > $LOG
if [ $# -gt 0 ]; then list="$@"; else list=$(ls -d seeded/C*-m* | xargs -n1 basename); fi
for n in $list; do
  out=$(tools/mutant.sh $n 2>&1)
  if echo "$out" | grep -q "PATCH-DOES-NOT-APPLY"; then r="does-not-apply";
  elif echo "$out" | grep -q "^VIOLATION"; then r="DETECTED $(echo "$out" | grep -c '^VIOLATION') $(echo "$out" | grep '^VIOLATION' | head -1 | grep -o 'no-failing-input-found')";
  else r="missed"; fi
  echo "$n $r | $(echo "$out" | grep -E '^C[0-9]+:' | tail -1)" >> $LOG
done
echo SWEEP-DONE >> $LOG
