#!/bin/bash
# runs every seeded change through the quick check of its property; one line per change in build/mutant_sweep.log
cd /verif
: > build/mutant_sweep.log
for d in seeded/C*-m*; do
  n=$(basename $d)
  out=$(tools/mutant.sh $n 2>&1)
  if echo "$out" | grep -q "PATCH-DOES-NOT-APPLY"; then r="does-not-apply";
  elif echo "$out" | grep -q "^VIOLATION"; then r="DETECTED $(echo "$out" | grep -c '^VIOLATION') $(echo "$out" | grep '^VIOLATION' | head -1 | grep -o 'no-failing-input-found')";
  else r="missed"; fi
  echo "$n $r | $(echo "$out" | grep -E '^C[0-9]+:' | tail -1)" >> build/mutant_sweep.log
done
echo SWEEP-DONE >> build/mutant_sweep.log
