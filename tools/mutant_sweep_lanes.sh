#!/bin/bash
# the sweep over every seeded change in N parallel lanes: each lane is a private mount namespace in which a copy of /repo and a
# copy of /verif are bind-mounted over the real paths (the checks and the harness refer to /repo and /verif by absolute path),
# so the real trees stay untouched and usable meanwhile.  Lanes live under /tmp/kvlanes and are removed at the end; the merged
# result is build/mutant_sweep.log.   usage: tools/mutant_sweep_lanes.sh [N=4] [names...]
N=${1:-4}; shift
L=/tmp/kvlanes
rm -rf $L; mkdir -p $L
cd /verif
if [ $# -gt 0 ]; then names="$@"; else names=$(ls -d seeded/C*-m* | xargs -n1 basename); fi
for i in $(seq 1 $N); do
  mkdir -p $L/$i
  rsync -a --exclude target /repo/ $L/$i/repo/
  rsync -a --exclude build/runs --exclude replays /verif/ $L/$i/verif/
  mkdir -p $L/$i/verif/build/runs $L/$i/verif/replays
done
i=0; declare -A part
for n in $names; do i=$(( i % N + 1 )); part[$i]="${part[$i]} $n"; done
for i in $(seq 1 $N); do
  unshare -m bash -c "mount --bind $L/$i/repo /repo && mount --bind $L/$i/verif /verif && cd /verif && tools/mutant_sweep.sh ${part[$i]}" > $L/$i.out 2>&1 &
done
wait
cat $L/*/verif/build/mutant_sweep.log | grep -v SWEEP-DONE | sort -V > /verif/build/mutant_sweep.log
echo SWEEP-DONE >> /verif/build/mutant_sweep.log
rm -rf $L
