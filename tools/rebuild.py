#!/usr/bin/env python3
import sys, os
sys.path.insert(0, os.path.dirname(__file__))
import kvlib
try:
    kvlib.translator(); kvlib.coq_make(); kvlib.build_harness(); kvlib.build_driver(); print("rebuilt")
except kvlib.BuildBroken as e:
    print("BROKEN", e.what); print(e.detail)
