"""C16: semantically neutral rewrites of a configuration text (alias, variable, template, if-equal, include,
platform, deflayermap).  Every rewrite returns (new_text, files, label) or None when it has no site."""
import re, random
import cfgmut
from cfgmut import subexprs, children

ACTION_ARGS = {   # list head -> indices (0 = head) of arguments that are actions; 'all' = every argument
    'tap-hold': (3, 4), 'tap-hold-press': (3, 4), 'tap-hold-release': (3, 4), 'tap-hold-press-timeout': (3, 4, 5),
    'tap-hold-release-timeout': (3, 4, 5), 'tap-hold-release-keys': (3, 4), 'tap-hold-except-keys': (3, 4),
    'multi': 'all', 'one-shot': (2,), 'one-shot-press': (2,), 'one-shot-release': (2,), 'one-shot-press-pcancel': (2,),
    'one-shot-release-pcancel': (2,), 'fork': (1, 2),
}
NEST_LIST_ACTIONS = {'tap-dance': 2, 'tap-dance-eager': 2}   # head -> index of the list whose elements are actions


def toplevel(b):
    _, lists = subexprs(b)
    out = []
    for s, e, d in sorted(lists):
        if d == 0:
            ch = children(b, s, e)
            head = b[ch[0][0]:ch[0][1]].decode('utf8', 'replace') if ch and not ch[0][2] else ''
            out.append((s, e, head))
    return out


def _walk_actions(b, s, e, is_list, acc, item, depth=0):
    """collect action sites (alias-able) below the action at [s,e)"""
    acc.append({'s': s, 'e': e, 'list': is_list, 'item': item, 'depth': depth})
    if not is_list or depth > 4:
        return
    ch = children(b, s, e)
    if not ch or ch[0][2]:
        return
    head = b[ch[0][0]:ch[0][1]].decode('utf8', 'replace')
    idx = ACTION_ARGS.get(head)
    if idx == 'all':
        idx = range(1, len(ch))
    for i in (idx or ()):
        if i < len(ch):
            _walk_actions(b, ch[i][0], ch[i][1], ch[i][2], acc, item, depth + 1)
    if head in NEST_LIST_ACTIONS and NEST_LIST_ACTIONS[head] < len(ch):
        ls, le, il = ch[NEST_LIST_ACTIONS[head]]
        if il:
            for (cs, ce, cl) in children(b, ls, le):
                _walk_actions(b, cs, ce, cl, acc, item, depth + 1)
    if head == 'switch':
        for i in range(2, len(ch), 3):
            _walk_actions(b, ch[i][0], ch[i][1], ch[i][2], acc, item, depth + 1)


def _walk_values(b, s, e, acc, item, depth=0):
    """every non-head element of the list [s,e), recursively (variable sites)"""
    ch = children(b, s, e)
    for i, (cs, ce, il) in enumerate(ch):
        if i > 0:
            acc.append({'s': cs, 'e': ce, 'list': il, 'item': item, 'depth': depth, 'parent_head':
                        b[ch[0][0]:ch[0][1]].decode('utf8', 'replace') if not ch[0][2] else '', 'index': i})
        if il and depth < 5:
            _walk_values(b, cs, ce, acc, item, depth + 1)


def sites(b):
    """-> (action_sites, value_sites)"""
    acts, vals = [], []
    for ti, (s, e, head) in enumerate(toplevel(b)):
        ch = children(b, s, e)
        tops = []
        if head == 'deflayer':
            tops = ch[2:]
        elif head in ('defalias', 'defvirtualkeys', 'deffakekeys'):
            tops = ch[2::2]
        elif head == 'deflayermap':
            tops = ch[3::2]
        for (cs, ce, il) in tops:
            if head not in ('defvirtualkeys', 'deffakekeys'):   # documented: aliases are not usable within defvirtualkeys
                _walk_actions(b, cs, ce, il, acts, (s, e, head))
            vals.append({'s': cs, 'e': ce, 'list': il, 'item': (s, e, head), 'depth': 0, 'parent_head': head, 'index': -1})
            if il:
                _walk_values(b, cs, ce, vals, (s, e, head), 1)
    return acts, vals


def splice(b, s, e, repl):
    """b[:s] + repl + b[e:], keeping repl a token of its own (S-(...) is two adjacent tokens in the source)"""
    pre = b' ' if s > 0 and b[s - 1:s] not in (b' ', b'\n', b'\t', b'(') else b''
    post = b' ' if e < len(b) and b[e:e + 1] not in (b' ', b'\n', b'\t', b')') else b''
    return b[:s] + pre + repl + post + b[e:]


class Rewriter:
    def __init__(self, rng: random.Random):
        self.rng = rng
        self.n = 0
        self.files = {}

    def fresh(self, p):
        self.n += 1
        return '%s%d' % (p, self.n)

    # ---- defalias
    def alias(self, text):
        b = text.encode()
        acts, _ = sites(b)
        tl = toplevel(b)
        last_alias_end = max([e for s, e, h in tl if h in ('defalias', 'defvirtualkeys', 'deffakekeys')] + [0])
        cands = []
        for a in acts:
            x = b[a['s']:a['e']]
            if x in (b'_', b'XX', b'\xe2\x80\xa2', b'\xe2\x9c\x97', b'\xe2\x88\x85') and a['depth'] == 0:
                pass   # transparent / no-op at the layer level may also be named
            if b'@' in x and (a['item'][2] != 'deflayer' or a['item'][0] < last_alias_end):
                continue   # the new alias would be defined before an alias it refers to
            cands.append(a)
        if not cands:
            return None
        a = self.rng.choice(cands)
        name = self.fresh('zal')
        x = b[a['s']:a['e']]
        new = splice(b, a['s'], a['e'], b'@' + name.encode())
        ins = a['item'][0]
        new = new[:ins] + b'(defalias ' + name.encode() + b' ' + x + b')\n' + new[ins:]
        return new.decode(), 'alias'

    # ---- defvar
    def var(self, text):
        b = text.encode()
        _, vals = sites(b)
        # templates are expanded before variables exist: a template name cannot be a variable
        vals = [v for v in vals if not (v['parent_head'] in ('template-expand', 't!') and v['index'] == 1)]
        if not vals:
            return None
        v = self.rng.choice(vals)
        name = self.fresh('zv')
        x = b[v['s']:v['e']]
        if x[:1] == b'(' and re.match(rb'\(\s*concat\b', x):
            return None
        new = splice(b, v['s'], v['e'], b'$' + name.encode())
        d = b'(defvar ' + name.encode() + b' ' + x + b')\n'
        if self.rng.random() < 0.5:
            new = d + new
        else:
            new = new + b'\n' + d
        return new.decode(), 'var:%s[%d]%s' % (v['parent_head'], v['index'], 'L' if v['list'] else 'A')

    # ---- deftemplate with parameters around one list action
    def template_param(self, text):
        b = text.encode()
        acts, _ = sites(b)
        cands = [a for a in acts if a['list'] and not re.match(rb'\(\s*(template-expand|t!)[\s)]', b[a['s']:a['e']])]
        if not cands:
            return None
        a = self.rng.choice(cands)
        ch = children(b, a['s'], a['e'])
        args = [c for c in ch[1:] if not c[2] and b[c[0]:c[0] + 1] not in (b'$',)]
        self.rng.shuffle(args)
        args = sorted(args[:self.rng.randint(0, min(2, len(args)))])
        name = self.fresh('ztp')
        body = b[a['s']:a['e']]
        params, vals = [], []
        off = a['s']
        for i, (cs, ce, _) in reversed(list(enumerate(args))):
            p = '%sp%d' % (name, i)
            params.insert(0, p)
            vals.insert(0, b[cs:ce])
            body = body[:cs - off] + b'$' + p.encode() + body[ce - off:]
        sp = self.rng.choice([b'template-expand', b't!'])
        call = b'(' + sp + b' ' + name.encode() + b''.join(b' ' + v for v in vals) + b')'
        new = splice(b, a['s'], a['e'], call)
        d = b'(deftemplate ' + name.encode() + b' (' + ' '.join(params).encode() + b') ' + body + b')\n'
        ins = a['item'][0]   # before the item that uses it: after every template the body may itself expand
        return (new[:ins] + d + new[ins:]).decode(), 'template-param%d' % len(params)

    # ---- whole top-level item inside a parameterless template / behind if-equal
    def template_item(self, text):
        b = text.encode()
        tl = [t for t in toplevel(b) if t[2] not in ('deftemplate', 'include', 'platform', 'environment')
              and b'deftemplate' not in b[t[0]:t[1]]]
        if not tl:
            return None
        s, e, head = self.rng.choice(tl)
        name = self.fresh('zti')
        item = b[s:e]
        sp = self.rng.choice([b'template-expand', b't!'])
        if self.rng.random() < 0.5:
            rep = b'(deftemplate ' + name.encode() + b' () ' + item + b')\n(' + sp + b' ' + name.encode() + b')'
            lab = 'template-item'
        else:
            rep = (b'(deftemplate ' + name.encode() + b' (c) (if-equal $c on ' + item + b') (if-not-equal $c on (defalias '
                   + name.encode() + b'x (bogus-action))) (if-in-list $c (off no) (bogus-item)))\n(' + sp + b' ' + name.encode() + b' on)')
            lab = 'template-if-equal'
        return (b[:s] + rep + b[e:]).decode(), lab


    # ---- a value inside an item, produced by nested conditionals of a template
    def template_cond(self, text):
        b = text.encode()
        tl = [t for t in toplevel(b) if t[2] in ('deflayer', 'defalias', 'deflayermap') and b'deftemplate' not in b[t[0]:t[1]]]
        if not tl:
            return None
        s, e, head = self.rng.choice(tl)
        _, vals = sites(b)
        # a call inside a template *definition* is arity-checked as written, so a conditional cannot stand for its arguments
        vals = [v for v in vals if v['item'][0] == s and v['parent_head'] not in ('template-expand', 't!')]
        if not vals:
            return None
        v = self.rng.choice(vals)
        name = self.fresh('ztc')
        x = b[v['s']:v['e']]

        def true_cond(inner):
            k = self.rng.randrange(4)
            if k == 0:
                return b'(if-equal $c on ' + inner + b')'
            if k == 1:
                return b'(if-not-equal $c off ' + inner + b')'
            if k == 2:
                return b'(if-in-list $c (x on y) ' + inner + b')'
            return b'(if-not-in-list $c (x (y off)) ' + inner + b')'
        chain = x
        depth = self.rng.randint(1, 3)
        for _ in range(depth):
            chain = true_cond(chain)
            if self.rng.random() < 0.4:
                chain = chain + b' (if-equal $c off (bogus-action))'
        item = b[s:v['s']] + chain + b[v['e']:e]
        sp = self.rng.choice([b'template-expand', b't!'])
        rep = b'(deftemplate ' + name.encode() + b' (c) ' + item + b')\n(' + sp + b' ' + name.encode() + b' on)'
        return (b[:s] + rep + b[e:]).decode(), 'template-cond%d' % depth

    # ---- include
    def include(self, text):
        b = text.encode()
        if b'(include' in b:
            return None
        tl = [t for t in toplevel(b) if t[2] not in ('include',)]
        if len(tl) < 2:
            return None
        i = self.rng.randrange(len(tl))
        j = min(len(tl), i + self.rng.randint(1, 3))
        s, e = tl[i][0], tl[j - 1][1]
        fn = self.fresh('zinc') + '.kbd'
        self.files[fn] = b[s:e].decode()
        # the file name written bare, quoted, or as a raw string
        style = self.rng.choice(['bare', 'bare', 'quoted', 'raw'])
        name = {'bare': fn, 'quoted': '"%s"' % fn, 'raw': 'r#"%s"#' % fn}[style]
        return (b[:s] + b'(include ' + name.encode() + b')' + b[e:]).decode(), 'include-' + style

    # ---- platform
    def platform(self, text):
        b = text.encode()
        tl = [t for t in toplevel(b) if t[2] not in ('include', 'platform')]   # the platform filter is one pass at the top level
        if not tl:
            return None
        s, e, head = self.rng.choice(tl)
        plats = self.rng.choice([b'linux', b'win linux', b'linux macos', b'macos winiov2 linux wintercept'])
        rep = b'(platform (' + plats + b') ' + b[s:e] + b')'
        inert = b'\n(platform (' + self.rng.choice([b'win', b'macos', b'win winiov2 wintercept macos']) + \
                b') (defalias zinert (bogus-action)))'
        return (b[:s] + rep + (inert if self.rng.random() < 0.5 else b'') + b[e:]).decode(), 'platform'

    # ---- deflayer -> deflayermap
    def layermap(self, text):
        b = text.encode()
        tl = toplevel(b)
        src = [t for t in tl if t[2] == 'defsrc']
        layers = [t for t in tl if t[2] == 'deflayer']
        if len(src) != 1 or not layers:
            return None
        keys = [b[c[0]:c[1]] for c in children(b, src[0][0], src[0][1])[1:]]
        if len(set(keys)) != len(keys) or any(k[:1] == b'(' for k in keys):
            return None
        s, e, _ = self.rng.choice(layers)
        ch = children(b, s, e)
        if len(ch) - 2 != len(keys):
            return None
        nm = b[ch[1][0]:ch[1][1]]
        nm = nm if ch[1][2] else b'(' + nm + b')'
        acts = [b[c[0]:c[1]] for c in ch[2:]]
        pairs = [keys[i] + b' ' + a for i, a in enumerate(acts)]
        # `_` stands for every defsrc key that the map does not mention: the keys carrying one chosen action may be left to it, and
        # the entry may be written anywhere among the others
        if self.rng.random() < 0.5:
            common = self.rng.choice(acts)
            if not common.startswith(b'(') or b'chord' not in common:
                pairs = [p for p, a in zip(pairs, acts) if a != common] + [b'_ ' + common]
        order = list(range(len(pairs)))
        self.rng.shuffle(order)
        rep = b'(deflayermap ' + nm + b' ' + b' '.join(pairs[i] for i in order) + b')'
        return (b[:s] + rep + b[e:]).decode(), 'layermap'

    KINDS = ['alias', 'var', 'var', 'template_param', 'template_item', 'template_cond', 'include', 'platform', 'layermap']

    def apply_random(self, text, k):
        labels = []
        for _ in range(k):
            kind = self.rng.choice(self.KINDS)
            r = getattr(self, kind)(text)
            if r:
                text, lab = r
                labels.append(lab)
        return text, dict(self.files), labels
