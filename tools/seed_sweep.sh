#!/bin/bash
# false-alarm sweep: every quick check under several seeds on the unchanged tree; one line per run in build/seed_sweep.log
cd /verif
: > build/seed_sweep.log
for s in "$@"; do
  for i in 01 02 03 04 05 06 07 08 09 10 11 12 13 14 15 16 17 18 19 20; do
    out=$(VERIF_SEED=$s ./kv check C$i 2>&1); rc=$?
    echo "seed=$s C$i rc=$rc viol=$(echo "$out" | grep -c '^VIOLATION') | $(echo "$out" | grep -E '^C[0-9]+:' | tail -1)" >> build/seed_sweep.log
    if [ $rc -ne 0 ]; then mkdir -p build/seed_sweep; echo "$out" > build/seed_sweep/C$i-seed$s.out; cp -r replays build/seed_sweep/replays-C$i-seed$s 2>/dev/null; fi
  done
done
echo SWEEP-DONE >> build/seed_sweep.log
