#!/bin/bash
# false-alarm sweep in parallel: one lane per seed (a private mount namespace with a copy of /verif bound over /verif; /repo is
# only read), every quick check under that seed on the unchanged tree; merged into build/seed_sweep.log
L=/tmp/kvseedlanes
rm -rf $L; mkdir -p $L
for s in "$@"; do
  mkdir -p $L/$s
  rsync -a --exclude build/runs --exclude replays /verif/ $L/$s/verif/
  mkdir -p $L/$s/verif/build/runs $L/$s/verif/replays
  unshare -m bash -c "mount --bind $L/$s/verif /verif && cd /verif && tools/seed_sweep.sh $s" > $L/$s.out 2>&1 &
done
wait
cat $L/*/verif/build/seed_sweep.log | grep -v SWEEP-DONE | sort -V > /verif/build/seed_sweep.log
echo SWEEP-DONE >> /verif/build/seed_sweep.log
mkdir -p /verif/build/seed_sweep
for s in "$@"; do cp -r $L/$s/verif/build/seed_sweep/* /verif/build/seed_sweep/ 2>/dev/null; done
rm -rf $L
