#!/usr/bin/env python3
"""Reads build/validate_seeded.log and build/mutant_sweep.log; writes seeded/STATUS.md and the `validated` block of each meta.json."""
import re, json, os
V = '/verif'
val = {}
cur = None
for l in open(f'{V}/build/validate_seeded.log', encoding='utf-8', errors='replace'):
    l = l.rstrip('\n')
    if l.startswith('== '):
        cur = l[3:]; val[cur] = {'notes': []}
    elif cur is None:
        continue
    elif l.startswith('demo command: '):
        val[cur]['demo_cmd'] = l[len('demo command: '):]
    elif l.startswith('suite with patch: '):
        m = re.match(r'suite with patch: (\d+) passed (\d+) failed', l)
        val[cur]['suite'] = (int(m.group(1)), int(m.group(2))) if m else None
    elif l.startswith('demo with patch: exit '):
        val[cur]['with_rc'] = int(l.split()[4]); val[cur]['with'] = l
    elif l.startswith('demo without patch: exit '):
        val[cur]['without_rc'] = int(l.split()[4]); val[cur]['without'] = l
    elif 'does-not-apply' in l or l.startswith('error'):
        val[cur]['notes'].append(l[:200])
sweep = {}
if os.path.exists(f'{V}/build/mutant_sweep.log'):
    for l in open(f'{V}/build/mutant_sweep.log'):
        p = l.split(' ', 2)
        if len(p) >= 2 and p[0].startswith('C'):
            sweep[p[0]] = l.strip()
rows = []
# changes validated by an earlier run (not in the current log): keep their recorded validation, refresh the detection column
import glob
for mp in sorted(glob.glob(f'{V}/seeded/C*-m*/meta.json')):
    n = os.path.basename(os.path.dirname(mp))
    if n in val:
        continue
    meta = json.load(open(mp))
    vd = meta.get('validated')
    if not vd:
        continue
    st = sweep.get(n, '')
    det = 'caught' if ' DETECTED' in st else ('not caught' if ' missed' in st else ('patch no longer applies' if 'does-not-apply' in st else vd.get('quick_check_of_its_property', '?')))
    vd['quick_check_of_its_property'] = det
    json.dump(meta, open(mp, 'w'), indent=2)
    sw = vd.get('suite_with_patch') or {}
    rows.append((n, vd.get('confirmed'), (sw.get('passed', 0), sw.get('failed', 0)) if sw else None, vd.get('demo_with_patch_exit'),
                 vd.get('demo_with_patch_failed_tests'), vd.get('demo_without_patch_exit'), vd.get('demo_without_patch_passed_tests'), det, st))
for n in sorted(val):
    v = val[n]
    passed_without = sum(int(x) for x in re.findall(r'(\d+) passed', v.get('without', '')))
    failed_with = sum(int(x) for x in re.findall(r'(\d+) failed', v.get('with', '')))
    suite_ok = bool(v.get('suite')) and v['suite'][0] >= 280 and v['suite'][1] == 0
    # (the logged result lines are cut at 160 characters, so the counts can miss the crate the demonstration lives in: the exit codes decide)
    confirmed = suite_ok and v.get('with_rc', 0) != 0 and v.get('without_rc', 1) == 0 and not v['notes']
    st = sweep.get(n, '')
    det = 'caught' if ' DETECTED' in st else ('not caught' if ' missed' in st else ('patch no longer applies' if 'does-not-apply' in st else '?'))
    rows.append((n, confirmed, v.get('suite'), v.get('with_rc'), failed_with, v.get('without_rc'), passed_without, det, st))
    mp = f'{V}/seeded/{n}/meta.json'
    meta = json.load(open(mp))
    meta['validated'] = {
        'by': 'tools/validate_seeded.sh in a scratch worktree of commit %s under /tmp (removed afterwards)' % json.load(open(mp)).get('base', 'e7e4d3c (pinned)'),
        'ran': ['git apply patch.diff; cargo test --workspace --no-fail-fast --offline',
                'git apply demo.diff; ' + v.get('demo_cmd', '?'), 'git apply -R patch.diff; ' + v.get('demo_cmd', '?')],
        'suite_with_patch': {'passed': v['suite'][0], 'failed': v['suite'][1]} if v.get('suite') else None,
        'demo_with_patch_exit': v.get('with_rc'), 'demo_with_patch_failed_tests': failed_with,
        'demo_without_patch_exit': v.get('without_rc'), 'demo_without_patch_passed_tests': passed_without,
        'confirmed': bool(confirmed), 'notes': v['notes'],
        'quick_check_of_its_property': det,
    }
    json.dump(meta, open(mp, 'w'), indent=2)
with open(f'{V}/seeded/STATUS.md', 'w') as f:
    f.write('# Seeded changes: confirmation in a scratch worktree and detection by the quick check\n\n')
    f.write('Confirmation = with the patch the whole suite passes, the demonstration fails with the patch and passes without it '
            '(scratch worktree under /tmp of the commit the change was written against: the pinned commit for m1/m2, meta.json `base` for m3/m4). Detection = `tools/mutant.sh <name>` on the current tree.\n\n')
    f.write('| change | confirmed | suite with patch | demo with patch | demo without patch | quick check |\n|---|---|---|---|---|---|\n')
    for n, c, s, wr, fw, wor, pw, det, st in sorted(rows):
        f.write('| %s | %s | %s | exit %s, %s failed | exit %s, %s passed | %s |\n' % (n, 'yes' if c else 'NO', ('%d passed, %d failed' % s) if s else '?', wr, fw, wor, pw, det))
print('\n'.join('%s confirmed=%s %s' % (r[0], r[1], r[7]) for r in rows))
