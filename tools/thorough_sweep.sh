#!/bin/bash
# every thorough check once on the unchanged tree; one line per run in build/thorough_sweep.log
cd /verif
: > build/thorough_sweep.log
for i in 01 02 03 04 05 06 07 08 09 10 11 12 13 14 15 16 17 18 19 20; do
  out=$(VERIF_SEED=${1:-1} ./kv check C$i --tier thorough 2>&1); rc=$?
  echo "C$i rc=$rc viol=$(echo "$out" | grep -c '^VIOLATION') | $(echo "$out" | grep -E '^C[0-9]+:' | tail -1)" >> build/thorough_sweep.log
  if [ $rc -ne 0 ]; then mkdir -p build/thorough_sweep; echo "$out" > build/thorough_sweep/C$i.out; cp -r replays/C$i build/thorough_sweep/replays-C$i 2>/dev/null; fi
done
echo SWEEP-DONE >> build/thorough_sweep.log
