#!/bin/bash
# every thorough check once on the unchanged tree, N lanes (private mount namespaces over copies of /verif); merged into
# build/thorough_sweep.log     usage: tools/thorough_sweep_lanes.sh [N=4]
N=${1:-4}
L=/tmp/kvthlanes
rm -rf $L; mkdir -p $L
ids=(01 02 03 04 05 06 07 08 09 10 11 12 13 14 15 16 17 18 19 20)
for i in $(seq 1 $N); do
  mkdir -p $L/$i
  rsync -a --exclude build/runs --exclude replays /verif/ $L/$i/verif/
  mkdir -p $L/$i/verif/build/runs $L/$i/verif/replays
  mine=""
  for j in "${!ids[@]}"; do if [ $(( j % N + 1 )) -eq $i ]; then mine="$mine ${ids[$j]}"; fi; done
  unshare -m bash -c "mount --bind $L/$i/verif /verif && cd /verif && : > build/thorough_sweep.log && for p in $mine; do out=\$(VERIF_SEED=1 ./kv check C\$p --tier thorough 2>&1); rc=\$?; echo \"C\$p rc=\$rc viol=\$(echo \"\$out\" | grep -c '^VIOLATION') | \$(echo \"\$out\" | grep -E '^C[0-9]+:' | tail -1)\" >> build/thorough_sweep.log; if [ \$rc -ne 0 ]; then mkdir -p build/thorough_sweep; echo \"\$out\" > build/thorough_sweep/C\$p.out; cp -r replays/C\$p build/thorough_sweep/replays-C\$p 2>/dev/null; fi; done" > $L/$i.out 2>&1 &
done
wait
cat $L/*/verif/build/thorough_sweep.log | sort -V > /verif/build/thorough_sweep.log
echo SWEEP-DONE >> /verif/build/thorough_sweep.log
rm -rf /verif/build/thorough_sweep; mkdir -p /verif/build/thorough_sweep
for i in $(seq 1 $N); do cp -r $L/$i/verif/build/thorough_sweep/* /verif/build/thorough_sweep/ 2>/dev/null; done
rm -rf $L
