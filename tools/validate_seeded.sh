#!/bin/bash
# Confirms seeded changes in a scratch worktree of the commit they were written against (meta.json "base", default: the pinned
# commit): (1) with the patch the whole test suite passes, (2) the demonstration fails with the patch, (3) passes without it.
# Results: build/validate_seeded.log, one block per change.  usage: validate_seeded.sh [glob]   (default: every change)
PIN=e7e4d3c
W=/tmp/kv_validate
export CARGO_TARGET_DIR=/tmp/kv_validate_target CARGO_NET_OFFLINE=true
cd /repo && git worktree remove --force $W 2>/dev/null; git worktree add --detach $W $PIN >/dev/null 2>&1 || exit 2
LOG=/verif/build/validate_seeded.log; : > $LOG
for d in /verif/seeded/${1:-C*-m*}; do
  n=$(basename $d)
  base=$(python3 -c "import json,sys; print(json.load(open('$d/meta.json')).get('base','$PIN'))" 2>/dev/null || echo $PIN)
  cd $W && git checkout -q -- . && git clean -fdq && git checkout -q --detach $base
  cmd=$(grep -h 'cargo test' $d/RUN.txt | grep -v '^#' | tail -1 | sed 's/^.*\(CARGO_NET_OFFLINE=true cargo test\)/\1/' | sed 's/^.*&& *//')
  [ -z "$cmd" ] && cmd=$(grep -h 'cargo test' $d/RUN.txt | tail -1 | sed 's/^# *//')
  echo "== $n" >> $LOG; echo "demo command: $cmd" >> $LOG
  if ! git apply $d/patch.diff 2>>$LOG; then echo "RESULT $n patch-does-not-apply" >> $LOG; continue; fi
  suite=$(cargo test --workspace --no-fail-fast --offline 2>&1 | grep -E '^test result:' | awk '{p+=$4; f+=$6} END {print p" passed "f" failed"}')
  echo "suite with patch: $suite" >> $LOG
  git apply $d/demo.diff 2>>$LOG || echo "demo-does-not-apply" >> $LOG
  (eval "$cmd") > /tmp/kv_demo_with.txt 2>&1; rc_with=$?
  git apply -R $d/patch.diff 2>>$LOG
  (eval "$cmd") > /tmp/kv_demo_without.txt 2>&1; rc_without=$?
  echo "demo with patch: exit $rc_with ($(grep -E '^test result:' /tmp/kv_demo_with.txt | tr '\n' ' ' | cut -c1-160))" >> $LOG
  echo "demo without patch: exit $rc_without ($(grep -E '^test result:' /tmp/kv_demo_without.txt | tr '\n' ' ' | cut -c1-160))" >> $LOG
  ok=no; if [ "$rc_with" != "0" ] && [ "$rc_without" = "0" ] && echo "$suite" | grep -Eq "^28[0-9] passed 0 failed"; then ok=yes; fi
  echo "RESULT $n confirmed=$ok" >> $LOG
done
cd /repo && git worktree remove --force $W; rm -rf /tmp/kv_validate_target /tmp/kv_demo_with.txt /tmp/kv_demo_without.txt
echo VALIDATE-DONE >> $LOG
